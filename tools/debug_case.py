"""Debug helper (not a check): run a replay file with aldy's debug log on stderr.
usage: ./check-env tools/debug_case.py <Cxx> <replay.json> [LEVEL]"""
import json, sys, os
HERE = os.path.dirname(os.path.dirname(os.path.abspath(__file__)))
sys.path.insert(0, HERE); sys.path.insert(0, os.environ.get("VERIF_REPO", "/repo"))
import logbook
lvl = sys.argv[3] if len(sys.argv) > 3 else "DEBUG"
logbook.StderrHandler(level=lvl, format_string="{record.message}").push_application()
from lib import runner
mod = runner.load_mod(sys.argv[1])
case = json.load(open(sys.argv[2])); case = case.get("case", case)
os.environ["VERIF_SCRATCH"] = "/tmp/dbg"; os.makedirs("/tmp/dbg", exist_ok=True); runner.scratch()
res = mod.run_case(case)
print("LABELS", res.labels); print("INFO", res.info)
for v in res.violations: print("VIOLATION", json.dumps(v, default=str)[:3000])
print("scratch kept at", os.environ.get("VERIF_SCRATCH"))
