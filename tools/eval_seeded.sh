#!/bin/bash
# usage: tools/eval_seeded.sh <Cxx> <N> [extra check ids...]
# Confirms a seeded change delivered in /tmp/wt_<Cxx>_out/mutant<N>.{diff,_demo.py,txt}:
#  suite passes with it, demo fails with it and passes without it, then runs the given checks against it.
P=$1; N=$2; shift 2
OUT=/tmp/wt${ROUND:+$ROUND}_${P}_out
W=/tmp/ev${ROUND}_${P}_$N
rm -rf $W; git -C /repo worktree prune; git -C /repo worktree add -q --detach $W HEAD || exit 3
cp /repo/aldy/indelpost/*.so $W/aldy/indelpost/
cd $W
/venv/bin/python $OUT/mutant${N}_demo.py > $OUT/ev${N}_demo_clean.log 2>&1; echo "demo without change: rc=$?"
git apply $OUT/mutant$N.diff || { echo "DIFF DOES NOT APPLY"; exit 3; }
/venv/bin/python $OUT/mutant${N}_demo.py > $OUT/ev${N}_demo_mut.log 2>&1; echo "demo with change: rc=$?"
/venv/bin/python -m pytest -q -p no:cacheprovider -n 8 --timeout=900 > $OUT/ev${N}_suite.log 2>&1; echo "suite with change: $(tail -1 $OUT/ev${N}_suite.log)"
cd /verif
for C in $P "$@"; do
  VERIF_REPO=$W VERIF_NO_SHRINK=1 ./check $C > $OUT/ev${N}_check_$C.log 2>&1; echo "check $C against change: rc=$? $(grep -c '^VIOLATION' $OUT/ev${N}_check_$C.log) violation line(s): $(grep '  bucket:' $OUT/ev${N}_check_$C.log | head -3 | cut -c1-100 | tr '\n' ';')"
done
git -C /repo worktree remove --force $W
