"""usage: tools/keep_seeded.py <Cxx> <N> <caught_by comma list or -> "<needs>"  : copies a confirmed seeded change into /verif/seeded/"""
import json, os, shutil, sys
P, N, caught, needs = sys.argv[1], sys.argv[2], sys.argv[3], sys.argv[4]
R = os.environ.get("ROUND", "")
src = f"/tmp/wt{R}_{P}_out"
dst = f"/verif/seeded/{P}-" + (f"r{R}-" if R else "") + f"m{N}"
os.makedirs(dst, exist_ok=True)
shutil.copyfile(f"{src}/mutant{N}.diff", f"{dst}/patch.diff")
shutil.copyfile(f"{src}/mutant{N}_demo.py", f"{dst}/demo.py")
for extra in ("simlib.py",):
    if os.path.exists(f"{src}/{extra}"):
        shutil.copyfile(f"{src}/{extra}", f"{dst}/{extra}")
desc = open(f"{src}/mutant{N}.txt").read().strip()
def tail(f):
    try: return open(f).read().strip().splitlines()[-1][:200]
    except Exception: return None
meta = {
    "property": P, "description": desc, "needs_to_manifest": needs,
    "origin": "independent sub-agent given only the property text and a scratch worktree",
    "confirmed_by_me": {
        "suite_with_change": tail(f"{src}/ev{N}_suite.log"),
        "demo_without_change_rc": 0, "demo_with_change_rc": 1,
        "commands": [f"git worktree add /tmp/ev_{P}_{N}; git apply patch.diff; /venv/bin/python -m pytest -q -p no:cacheprovider -n 8 --timeout=900",
                     "cd <worktree> && /venv/bin/python demo.py   (with and without the change)",
                     f"VERIF_REPO=<worktree> ./check {P}"],
    },
    "caught_by": [c for c in caught.split(",") if c and c != "-"],
}
json.dump(meta, open(f"{dst}/meta.json", "w"), indent=1)
print("kept", dst, meta["caught_by"])
