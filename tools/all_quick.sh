#!/bin/bash
# usage: tools/all_quick.sh <seed> : runs every registered quick check at one seed, prints one line per check
cd "$(dirname "${BASH_SOURCE[0]}")/.."
for p in C01 C02 C03 C04 C05 C06 C07 C08 C09 C10 C11 C12 C13 C14 C15 C16 C17 C18 C19; do
  s=$(date +%s)
  VERIF_SEED=$1 ./check $p > /tmp/allq_$p.log 2>&1; rc=$?
  echo "$p seed=$1 rc=$rc wall=$(( $(date +%s) - s ))s $(grep -c '^VIOLATION' /tmp/allq_$p.log) violations; $(grep '^\['$p'\] tier' /tmp/allq_$p.log | cut -c1-160)"
  grep -A2 '^VIOLATION' /tmp/allq_$p.log | cut -c1-300
done
