#!/bin/bash
# usage: tools/with_mutant.sh <patch.diff | "sed:<file>:<sed-expr>"> <check args...>
# Runs a check against a scratch copy of /repo with the change applied; /repo itself is never touched.
set -e
HERE="$(cd "$(dirname "${BASH_SOURCE[0]}")/.." && pwd)"
M=$(mktemp -d /tmp/mut_XXXXXX)
trap 'rm -rf "$M"' EXIT
rsync -a --exclude .git /repo/ "$M/"
spec="$1"; shift
if [[ "$spec" == sed:* ]]; then
  IFS=':' read -r _ file expr <<< "$spec"
  before=$(md5sum "$M/$file" | cut -d' ' -f1)
  sed -i -E "$expr" "$M/$file"
  after=$(md5sum "$M/$file" | cut -d' ' -f1)
  if [ "$before" == "$after" ]; then echo "MUTANT DID NOT APPLY"; exit 3; fi
else
  (cd "$M" && patch -p1 -s < "$spec") || { echo "MUTANT DID NOT APPLY"; exit 3; }
fi
cd "$HERE"
set +e
VERIF_REPO="$M" VERIF_NO_SHRINK=${VERIF_NO_SHRINK-1} "$@"
rc=$?
echo "mutant rc=$rc"
exit $rc
