#!/bin/bash
# usage: tools/all_thorough.sh <seed> [ids...] : thorough tier of the given (default: all) checks, one line per check
cd "$(dirname "${BASH_SOURCE[0]}")/.."
seed=$1; shift
ids="$@"; [ -z "$ids" ] && ids="C11 C12 C18 C05 C08 C09 C15 C19 C02 C03 C04 C16 C07 C13 C10 C06 C17 C14 C01"
for p in $ids; do
  s=$(date +%s)
  VERIF_SEED=$seed nice -n 10 ./check $p --tier thorough > /tmp/allt_$p.log 2>&1; rc=$?
  echo "$p seed=$seed rc=$rc wall=$(( $(date +%s) - s ))s; $(grep '^\['$p'\] tier' /tmp/allt_$p.log | cut -c1-170)"
  grep -A2 '^VIOLATION' /tmp/allt_$p.log | cut -c1-400
  mkdir -p thorough_out; cp out/$p-*.json thorough_out/ 2>/dev/null
done
