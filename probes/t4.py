import glob, os, sys, time, collections
from aldy.gene import Gene
from aldy.common import rev_comp
import logbook
logbook.NullHandler().push_application()
bad=collections.Counter(); tot=0; ex=[]
t0=time.time()
for f in sorted(glob.glob('/repo/aldy/resources/genes/*.yml')):
    for genome in ["hg19","hg38"]:
        t=time.time()
        g=Gene(f,genome=genome)
        for (pos,op),(fn,rs,rpos,opos,oop) in g.mutations.items():
            tot+=1
            if ">" in op:
                l,r=op.split(">")
                ref=g[pos:pos+len(l)]
                if any(a!=b for a,b in zip(ref,l) if b!="."): bad[g.name,genome,"snp"]+=1; ex.append((g.name,genome,pos,op,ref,oop))
            elif op.startswith("del") and "ins" not in op:
                if g[pos:pos+len(op)-3]!=op[3:]: bad[g.name,genome,"del"]+=1; ex.append((g.name,genome,pos,op,g[pos:pos+len(op)-3],oop))
            elif op.startswith("del"):
                bad[g.name,genome,"delins"]+=0
                ex.append((g.name,genome,pos,op,"DELINS",oop))
        if time.time()-t>3: print(g.name,genome,"load+check %.1fs"%(time.time()-t))
print(tot, dict(bad)); print(ex[:25]); print(len(ex)); print("total %.1f"%(time.time()-t0))
