import random, collections, sys, time
from aldy.gene import Gene, Mutation
from aldy.common import script_path
from aldy.profile import Profile
from aldy.coverage import Coverage
from aldy.solutions import CNSolution
from aldy.major import estimate_major
from aldy.minor import estimate_minor
import logbook; logbook.NullHandler().push_application()
name=sys.argv[1]
ga=Gene(script_path(f"aldy.resources.genes/{name}.yml"),genome="hg19")
gb=Gene(script_path(f"aldy.resources.genes/{name}.yml"),genome="hg38")
def key(g): return {g.get_refseq(m):Mutation(*m) for m in g.mutations}
ka,kb=key(ga),key(gb)
rng=random.Random(int(sys.argv[2]))
minors=[(an,mn) for an,a in ga.alleles.items() if a.cn_config=="1" for mn in a.minors]
div=0; n=0
for it in range(int(sys.argv[3])):
    pick=[rng.choice(minors) for _ in range(2)]
    d=20
    def table(g,k):
        cov=collections.defaultdict(dict)
        cnt=collections.Counter()
        for an,mn in pick:
            for m in g.alleles[an].func_muts|g.alleles[an].minors[mn].neutral_muts: cnt[m]+=1
        sites=collections.defaultdict(int)
        for m,c in cnt.items():
            cov[m.pos][m.op]=[(60,60)]*(d*c)
            if not m.op.startswith("ins"): sites[m.pos]+=c
        for m in cnt:
            r=2-sites.get(m.pos,0)
            if r>0: cov[m.pos]["_"]=[(60,60)]*(d*r)
        return Coverage(g,Profile("t"),None,cov,None,{})
    out=[]
    for g in (ga,gb):
        cov=table(g,None)
        cn=CNSolution(g,0,["1","1"])
        mj=estimate_major(g,cov,cn,"cbc")
        mi=estimate_minor(g,cov,mj,"cbc") if mj else []
        out.append((sorted((tuple(sorted(a.major for a in s.solution.elements())),round(s.score,4)) for s in mj),
                    sorted((tuple(sorted((a.minor,tuple(sorted(g.get_refseq(x) for x in a.added)),tuple(sorted(g.get_refseq(x) for x in a.missing))) for a in s.solution)),round(s.score,3)) for s in mi)))
    n+=1
    if out[0]!=out[1]:
        div+=1
        if div<=3: print(pick, "\n A:",out[0][1][:2],"\n B:",out[1][1][:2], "major same:",out[0][0]==out[1][0])
print(name,"cases",n,"divergent",div)
