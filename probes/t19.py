exec(open('t14.py').read().split("seed=int(sys.argv[1])")[0])
from aldy.sam import Sample
from aldy.profile import Profile
import yaml
rng=random.Random(5)
for d in range(4):
    strand,sv=make_db(rng,"r.yml"); gene=Gene("r.yml",genome="hg19"); sim=Sim(gene,rng.randrange(1<<30))
    def mo(name):
        a,m=gene.get_allele(name); return a.cn_config,set(a.func_muts)|set(m.neutral_muts)
    dflt=[mn for a in gene.alleles.values() if a.cn_config=="1" for mn in a.minors]
    sim.sample("p.bam",[mo("1.001")]*2,100,5)
    names=[rng.choice(dflt) for _ in range(3 if sv else 2)]
    sim.sample("s.bam",[mo(n) for n in names],100,5)
    # k-fold duplicate
    def dup(src,dst,k,gene_only=False):
        with pysam.AlignmentFile(src) as f, pysam.AlignmentFile(dst,"wb",header=f.header) as o:
            for r in f:
                kk=k if (not gene_only or r.reference_start<sim.cnr.start-500) else 1
                for i in range(kk):
                    r2=pysam.AlignedSegment.fromstring(r.to_string(),f.header) ; r2.query_name=f"{r.query_name}_d{i}"; o.write(r2)
        pysam.index(dst)
    prof=Profile.load(gene,"p.bam",sim.cnr)
    base=Sample(gene,prof,"s.bam").coverage._region_coverage
    for k in (2,3):
        dup("s.bam","k.bam",k); c=Sample(gene,Profile.load(gene,"p.bam",sim.cnr),"k.bam").coverage._region_coverage
        dup("s.bam","g.bam",k,True); c2=Sample(gene,Profile.load(gene,"p.bam",sim.cnr),"g.bam").coverage._region_coverage
        print(d,k,"dup maxdev",max(abs(c[x]-base[x]) for x in base),"geneonly maxdev",max(abs(c2[x]-k*base[x]) for x in base))
    selfc=Sample(gene,Profile.load(gene,"s.bam",sim.cnr),"s.bam").coverage._region_coverage
    print(d,"self",set(round(v,12) for v in selfc.values()))
    # profile file route
    regions={(gene.name,r,gi):rng_ for gi,gr in enumerate(gene.regions) for r,rng_ in gr.items()}
    data=Profile.get_sam_profile_data("p.bam",regions=regions,cn_region=sim.cnr,genome="hg19")
    open("p.yml","w").write(yaml.dump(data,default_flow_style=None))
    c3=Sample(gene,Profile.load(gene,"p.yml"),"s.bam").coverage._region_coverage
    print(d,"file-route maxdev",max(abs(c3[x]-base[x]) for x in base), sorted(set(round(v,3) for v in base.values())))
