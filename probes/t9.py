import itertools, random, collections, sys
from aldy.gene import Gene, CNConfigType
from aldy.common import script_path
from aldy.profile import Profile
from aldy.cn import solve_cn_model
import logbook; logbook.NullHandler().push_application()

def rcn(gene, profile, max_cn, cov, fusion_support=None):
    U=gene.unique_regions; nU=len(U)
    dele=gene.deletion_allele()
    has_p=len(gene.regions)>1
    names=[n for n in gene.cn_configs if not fusion_support or n=="1" or n==dele or (n in fusion_support and fusion_support[n]>=1/(2*max_cn))]
    P=10.0/nU*0.75
    pen={}
    for n in names:
        k=gene.cn_configs[n].kind
        pen[n]=P*(1+(profile.cn_fusion_right if k==CNConfigType.RIGHT_FUSION else profile.cn_fusion_left if k==CNConfigType.LEFT_FUSION else 0))
    pen["PSEUDO"]=P
    default=[n for n in names if gene.cn_configs[n].kind==CNConfigType.DEFAULT]
    res={}  # structure -> list of (score, explanation)
    ranges=[]
    for n in names: ranges.append(range(0,3))
    for comp in itertools.product(*ranges):
        if sum(comp)!=2: continue
        compd=dict(zip(names,comp))
        for extra in range(0,max_cn):
            if extra and not default: break
            for ps in range(0,(max_cn+1) if (has_p and dele) else 1):
                if dele and compd.get(dele,0)==2 and (extra or ps or any(v for k,v in compd.items() if k!=dele)): continue
                G={r:0 for r in U}; Pp={r:0 for r in U}
                pars=0
                for n,c in compd.items():
                    cn=gene.cn_configs[n].cn
                    for r in U:
                        G[r]+=c*cn[0].get(r,0)
                        if len(cn)>1: Pp[r]+=c*cn[1].get(r,0)
                    pars+=c*pen[n]
                if extra:
                    n=default[0]; cn=gene.cn_configs[n].cn
                    for r in U:
                        G[r]+=extra*cn[0].get(r,0)
                        if len(cn)>1: Pp[r]+=extra*(cn[1].get(r,0)-1)
                    pars+=extra*pen[n]
                if ps:
                    cn=gene.cn_configs[dele].cn
                    for r in U:
                        Pp[r]+=ps*cn[1].get(r,0)
                    pars+=ps*pen["PSEUDO"]
                diff=0; fit=0; ok=True
                for r in U:
                    g,p=cov[r]
                    e=((g-p)-(G[r]-Pp[r]))/(max(g,p)+1)
                    eg=g-G[r]
                    if abs(e)>profile.cn_max or abs(eg)>profile.cn_max: ok=False
                    diff+=abs(e)*(profile.cn_pce_penalty if r=="pce" else 1); fit+=abs(eg)
                if not ok: continue
                score=profile.cn_diff/nU*diff+profile.cn_fit/nU*fit+profile.cn_parsimony*pars
                st=[]
                for n,c in compd.items():
                    if n!=dele: st+=[n]*c
                if extra: st+=[default[0]]*extra
                res.setdefault(tuple(sorted(st)),[]).append((score,(comp,extra,ps)))
    return {k:min(v) for k,v in res.items()}, res

gene=Gene(script_path("aldy.tests.resources/toy.yml"))
rng=random.Random(int(sys.argv[1]) if len(sys.argv)>1 else 1)
bad=0
for it in range(60):
    prof=Profile("t"); prof.gap=rng.choice([0,0.1,0.3])
    max_cn=rng.choice([3,4,5])
    # plant
    pl=rng.choice([["1","1"],["1","4"],["1","5"],["1","6"],["1","1","1"],["4","4","1"],["5","1","1"],["6","6"],["4","5"]])
    cov={}
    for r in gene.unique_regions:
        g=sum(gene.cn_configs[c].cn[0][r] for c in pl); p=sum(gene.cn_configs[c].cn[1][r] for c in pl[:2])+sum(gene.cn_configs[c].cn[1][r]-1 for c in pl[2:])
        cov[r]=(max(0,g+round(rng.uniform(-.5,.5),2)), max(0,p+round(rng.uniform(-.5,.5),2)))
    sols=solve_cn_model(gene,prof,gene.cn_configs,max_cn,cov,"cbc")
    ref,allx=rcn(gene,prof,max_cn,cov)
    best=min(v[0] for v in ref.values())
    rep={tuple(sorted(s.solution.elements())):s.score for s in sols}
    msgs=[]
    if abs(min(rep.values())-best)>1e-4: msgs.append(("opt",min(rep.values()),best))
    for k,v in rep.items():
        if k not in ref: msgs.append(("illformed",k)); continue
        if abs(v-ref[k][0])>1e-4: msgs.append(("score",k,v,ref[k][0]))
        if v>(1+prof.gap)*best+1e-4: msgs.append(("gap",k,v))
    for k,(sc,ex) in ref.items():
        if sc<(1+prof.gap)*best-2e-4 and k not in rep:
            # contains reported with no worse
            ck=collections.Counter(k)
            if not any(not (collections.Counter(r)-ck) and rv<=sc+1e-4 for r,rv in rep.items()): msgs.append(("missing",k,sc))
    if msgs: bad+=1; print(it,pl,prof.gap,max_cn,msgs[:3], "n_rep",len(rep))
print("bad",bad)
