import random, yaml, os, sys, time, collections
import pysam
from aldy.gene import Gene
from aldy.common import rev_comp, GRange

def rc(s): return rev_comp(s)

def make_db(rng, strand="+", pseudo=True, L=900, base=20001, chrom="7"):
    # RefSeq layout (1-based, RefSeq coords): up | e1 i1 e2 i2 e3 | down
    seq = "".join(rng.choice("ACGT") for _ in range(L))
    # exon coords in RefSeq (1-based half-open like toy: [s,e))
    # lay regions in refseq order
    bounds = [1, 101, 201, 301, 401, 501, 601, L+1]  # up,e1,i1,e2,i2,e3,down
    names = ["up","e1","i1","e2","i2","e3","down"]
    # start codon ATG at e1 start; avoid stop codons: simple - force exons to be codon-safe
    s=list(seq)
    def setcod(i,c):
        s[i:i+3]=list(c)
    ex = [(101,201),(301,401),(501,601)]
    # make exon concatenation free of stops
    cod = [c for c in ["GCT","GAT","AAA","CTG","CCA","TCC","ACG","GGT","CAT","TTC","AGC","GTA","TGG","ATC"]]
    k=0
    for (a,b) in ex:
        for i in range(a-1,b-1):
            pass
    exonpos=[i for (a,b) in ex for i in range(a-1,b-1)]
    for j in range(0,len(exonpos)-2,3):
        c=rng.choice(cod)
        for t in range(3): s[exonpos[j+t]]=c[t]
    seq="".join(s)
    start=base; end=base+L
    def g(refpos1):  # refseq 1-based -> genome 1-based
        if strand=="+": return start+refpos1-1
        return start+(L-refpos1)
    regions={}
    pbase=base+5000
    for i,n in enumerate(names):
        a,b=bounds[i],bounds[i+1]
        if n.startswith("i"): continue
        if strand=="+":
            ga,gb=g(a),g(b-1)+1
        else:
            ga,gb=g(b-1),g(a)+1
        off=pbase-base
        regions[n]=[ga,gb]+([ga+off,gb+off] if pseudo else [])
    return seq, regions, start, end, g

rng=random.Random(1)
strand=sys.argv[1] if len(sys.argv)>1 else "-"
seq,regions,start,end,g=make_db(rng,strand)
L=len(seq)
def snp(pos1, alt=None, func=None):
    r=seq[pos1-1]
    alt=alt or next(c for c in "ACGT" if c!=r)
    return [pos1, f"{r}>{alt}", "-"]+([func] if func else [])
alleles={
 "G*1.001":{"mutations":[]},
 "G*1.002":{"mutations":[snp(250)]},
 "G*2.001":{"mutations":[snp(150,func="X1")]},
 "G*2.002":{"mutations":[snp(150,func="X1"), snp(720)]},
 "G*3.001":{"mutations":[snp(350,func="X2"), snp(50)]},
 "G*4.001":{"mutations":[[330, "del"+seq[329:332], "-", "frameshift"]]},
 "G*5.001":{"mutations":[[530, "insGATTACA", "-", "frameshift"]]},
 "G*6.001":{"mutations":[["G","deletion"]]},
 "G*7.001":{"mutations":[["GP","i1-"]]},
 "G*8.001":{"mutations":[["GP","e3+"]]},
}
db={"name":"G","version":"t","generated":"x","alleles":alleles,
 "structure":{"genes":["G","GP"],"regions":{"hg19":regions},"cn_regions":["e1","i1","e2","i2","e3"]},
 "reference":{"name":"NG_X","mappings":{"hg19":["7",start,end,strand,f"M{L}"]},"exons":[[101,201],[301,401],[501,601]],"seq":seq}}
open("g.yml","w").write(yaml.dump(db))
gene=Gene("g.yml",genome="hg19")
print(gene.alleles.keys()); 
for k,v in gene.cn_configs.items(): print(k,v)
print(gene.mutations)
print({k:(a.cn_config, a.func_muts, list(a.minors)) for k,a in gene.alleles.items()})

# ---------- simulator -------------
CONTIG_LEN=40000
grng=random.Random(7)
genome=[grng.choice("ACGT") for _ in range(CONTIG_LEN)]
lo,hi=gene._lookup_range
for i in range(lo,hi): genome[i]=gene[i]
genome="".join(genome)
CNR=GRange("7",30000,31000)

def write_bam(path, reads):
    hdr={"HD":{"VN":"1.0","SO":"coordinate"},"SQ":[{"SN":"7","LN":CONTIG_LEN}]}
    reads=sorted(reads,key=lambda r:r[1])
    with pysam.AlignmentFile(path,"wb",header=hdr) as f:
        for name,pos,cig,s in reads:
            a=pysam.AlignedSegment(f.header)
            a.query_name=name; a.reference_id=0; a.reference_start=pos
            a.cigartuples=cig; a.query_sequence=s; a.mapping_quality=60
            a.query_qualities=pysam.qualitystring_to_array("I"*len(s)); a.flag=0
            f.write(a)
    pysam.index(path)

def hap_reads(tag, seg_start, seg_end, muts, readlen, step):
    """tile [seg_start,seg_end) of the genome with reads carrying muts (genome coords, aldy ops)."""
    # build per-position events
    ev={}
    for (p,op) in muts:
        ev[p]=op
    reads=[]
    n=0
    for st in range(seg_start-readlen+step, seg_end, step):
        a=max(st,seg_start); b=min(st+readlen,seg_end)
        if b<=a: continue
        cig=[]; s=[]
        def add(op,ln):
            if ln<=0: return
            if cig and cig[-1][0]==op: cig[-1]=(op,cig[-1][1]+ln)
            else: cig.append((op,ln))
        p=a
        while p<b:
            op=ev.get(p)
            if op and op.startswith("ins"):
                # insertion is placed AFTER base p
                add(0,1); s.append(genome[p]); p+=1
                if p<b:
                    add(1,len(op)-3); s.append(op[3:])
            elif op and op.startswith("del"):
                ln=len(op)-3
                if p>a and p+ln<b:
                    add(2,ln); p+=ln
                else:
                    # cannot represent deletion at read edge -> trim read
                    if p==a: a=p=p+ln; continue
                    b=p; break
            elif op and ">" in op:
                add(0,1); s.append(op[2]); p+=1
            else:
                add(0,1); s.append(genome[p]); p+=1
        if cig and cig[-1][0] in (1,2): continue
        if not cig: continue
        reads.append((f"{tag}_{n}",a,cig,"".join(s))); n+=1
    return reads

def simulate(path, copies, readlen=100, step=5, extra=()):
    """copies: list of (cn_config_name, set of Mutation) ; 2 'complete' haplotypes assumed by caller"""
    reads=[]
    wide=gene.get_wide_region()
    for ci,(conf,muts) in enumerate(copies):
        cn=gene.cn_configs[conf].cn
        for gi,regs in enumerate(gene.regions):
            for r,rg in regs.items():
                k=cn[gi][r] if gi<len(cn) else 0
                if gi>0 and ci>=2: k-=1
                for c in range(k):
                    m=[(x.pos,x.op) for x in muts if rg.start<=x.pos<rg.end] if gi==0 else []
                    reads+=hap_reads(f"c{ci}g{gi}{r}k{c}",rg.start,rg.end,m,readlen,step)
    # neutral: two copies
    for c in range(2):
        reads+=hap_reads(f"n{c}",CNR.start-300,CNR.end+300,[],readlen,step)
    write_bam(path,reads)
    return len(reads)

from aldy.genotype import genotype
from aldy.gene import Mutation
def muts_of(name):
    a,m=gene.get_allele(name)
    return a.cn_config, set(a.func_muts)|set(m.neutral_muts)

t=time.time()
print("profile reads", simulate("prof.bam",[muts_of("1.001"),muts_of("1.001")]))
tests=[["1.001","2.002"],["3.001","4.001"],["5.001","1.002"],["6.001","2.001"],["7#3.001","1.001","1.001"],["8.001","2.001"],["1.001","1.001","3.001"],["6.001","6.001"]]
import logbook
for tcase in tests:
    n=simulate("s.bam",[muts_of(x) for x in tcase])
    t=time.time()
    try:
        res=genotype("g.yml","s.bam","prof.bam",output_file=None,cn_region=CNR,genome="hg19",solver="any")
        for k,v in res.items():
            print(tcase,"->",[(s.get_major_diplotype(), s.get_minor_diplotype(), round(s.score,3), dict(s.major_solution.cn_solution.solution)) for s in v], "reads",n,"t=%.2f"%(time.time()-t))
    except Exception as e:
        print(tcase,"EXC",type(e),e)
