exec(open('proto.py').read().split("t=time.time()\nprint(\"profile reads\"")[0])
simulate("prof.bam",[muts_of("1.001"),muts_of("1.001")])
# C19: no reads in gene locus: only neutral reads
reads=[]
for c in range(2): reads+=hap_reads(f"n{c}",CNR.start-300,CNR.end+300,[],100,5)
write_bam("empty.bam",reads)
# pseudo-only: deletion/deletion
import io
for label,kw in [("est",dict(profile_name="prof.bam",cn_region=CNR)),("usercn",dict(profile_name=None,cn_solution=["1","1"])),("usercn+prof",dict(profile_name="prof.bam",cn_region=CNR,cn_solution=["1","1"]))]:
    try:
        res=genotype("g.yml","empty.bam",output_file=None,genome="hg19",**kw)
        print(label,[(s.get_major_diplotype()) for v in res.values() for s in v])
    except Exception as e: print(label,"EXC",type(e).__name__,str(e)[:100])
# no neutral reads
simulate("s.bam",[muts_of("1.001"),muts_of("2.001")])
rd=[r for r in pysam.AlignmentFile("s.bam") ]
try:
    res=genotype("g.yml","s.bam","prof.bam",output_file=None,cn_region=GRange("7",35000,36000),genome="hg19")
    print("noneutral",[(s.get_major_diplotype()) for v in res.values() for s in v])
except Exception as e: print("noneutral EXC",type(e).__name__,str(e)[:100])
