import random, itertools, sys, time
from aldy import lpinterface
import logbook; logbook.NullHandler().push_application()
def run(seed):
    rng=random.Random(seed)
    nb=rng.randrange(2,9); ne=rng.randrange(1,6); gap=rng.choice([0,0.1,0.5])
    m=lpinterface.model("t","cbc")
    B=[m.addVar(vtype="B",name=f"b.{i}-x#{i%2}") for i in range(nb)]
    rows=[]  # (coefs, rhs)
    E=[]
    for j in range(ne):
        co=[rng.choice([0,0,1,1,2]) for _ in range(nb)]; rhs=round(rng.uniform(0,3),2)
        e=m.addVar(lb=-m.INF,ub=m.INF,name=f"E_{j}")
        ex=sum(c*b for c,b in zip(co,B))+e
        m.addConstr(ex<=rhs,name="C"); m.addConstr(ex>=rhs,name="C")
        rows.append((co,rhs)); E.append(e)
    cons=[]
    if rng.random()<.7:
        S=rng.sample(range(nb),rng.randrange(1,nb+1)); k=rng.randrange(0,len(S)+1)
        m.addConstr(sum(B[i] for i in S)<=k); m.addConstr(sum(B[i] for i in S)>=k); cons.append(("card",S,k))
    for i in range(1,nb):
        if rng.random()<.3: m.addConstr(B[i]<=B[i-1]); cons.append(("ord",i))
    prods=[]
    if nb>=2 and rng.random()<.5:
        t=rng.sample(range(nb),2); p=m.addVar(vtype="B",name="P"); m.prod(p,[B[t[0]],B[t[1]]]); prods.append(t)
    pen=[round(rng.uniform(0,1),2) for _ in range(nb)]
    w=[rng.choice([1,1,2]) for _ in range(ne)]
    coeffs={m.varName(E[j]):w[j] for j in range(ne)}
    obj=m.abssum(E,coeffs=coeffs)+sum(p*b for p,b in zip(pen,B))
    pp=round(rng.uniform(0,1),2)
    if prods: obj+=pp*p
    m.setObjective(obj)
    # enumerate
    feas={}
    for x in itertools.product([0,1],repeat=nb):
        ok=True
        for c in cons:
            if c[0]=="card" and sum(x[i] for i in c[1])!=c[2]: ok=False
            if c[0]=="ord" and x[c[1]]>x[c[1]-1]: ok=False
        if not ok: continue
        o=sum(w[j]*abs(rows[j][1]-sum(c*xi for c,xi in zip(rows[j][0],x))) for j in range(ne))+sum(p*xi for p,xi in zip(pen,x))
        key=set(m.varName(B[i]) for i in range(nb) if x[i])
        if prods and x[prods[0][0]] and x[prods[0][1]]: o+=pp; key.add("P")
        feas[frozenset(key)]=o
    sols=list(m.solutions(gap))
    msgs=[]
    if not feas:
        if sols: msgs.append("sols on infeasible")
        return msgs,0
    best=min(feas.values())
    if not sols: return ["no sols"],len(feas)
    if abs(sols[0][1]-best)>1e-4: msgs.append(("opt",sols[0][1],best))
    seen=set(); prev=-1e9
    for st,o,names in sols:
        k=frozenset(names)
        if k in seen: msgs.append(("dup",names))
        seen.add(k)
        if k not in feas: msgs.append(("infeasible",names))
        elif abs(feas[k]-o)>1e-4: msgs.append(("objmismatch",names,o,feas[k]))
        if o>(1+gap)*best+1e-4: msgs.append(("gap",o))
        if o<prev-1e-5: msgs.append(("order",o,prev))
        prev=o
    for k,o in feas.items():
        if o<(1+gap)*best-2e-4 and k not in seen:
            if not any(s<=k and feas.get(s,1e9)<=o+1e-4 for s in seen): msgs.append(("lost",sorted(k),o))
    return msgs,len(feas)
bad=0;t=time.time();nt=0
for s in range(int(sys.argv[1]),int(sys.argv[2])):
    msgs,n=run(s)
    if n>=2: nt+=1
    if msgs: bad+=1; print(s,msgs[:3])
print("bad",bad,"nontrivial",nt,"t=%.1f"%(time.time()-t))
