exec(open('t3.py').read().split("from aldy.sam import Sample")[0])
import logbook; logbook.NullHandler().push_application()
p=20400
recs=[(p+1, genome[p:p+2], ("TG" if genome[p:p+2]!="TG" else "CA"), "0/1")]
write_vcf("y.vcf",recs)
try:
    res=genotype("g.yml","y.vcf.gz",None,output_file=None,genome="hg19")
    print("MNP record ->",[(s.get_minor_diplotype()) for v in res.values() for s in v])
except Exception as e:
    print("MNP EXC",type(e).__name__,e)
# haploid + missing
recs=[(p+1, genome[p], "A" if genome[p]!="A" else "C", "1"),(p+5, genome[p+4], "A" if genome[p+4]!="A" else "C", "./.")]
write_vcf("z.vcf",recs)
try:
    res=genotype("g.yml","z.vcf.gz",None,output_file=None,genome="hg19")
    print("haploid/missing ->",[(s.get_minor_diplotype()) for v in res.values() for s in v])
except Exception as e:
    print("HAP EXC",type(e).__name__,e)
