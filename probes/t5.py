exec(open('proto.py').read().split("t=time.time()\nprint(\"profile reads\"")[0])
import logbook; logbook.NullHandler().push_application()
simulate("prof.bam",[muts_of("1.001"),muts_of("1.001")])
simulate("s.bam",[muts_of("3.001"),muts_of("4.001"),muts_of("5.001")])
from aldy.__main__ import main
import io, os
t=time.time()
try:
    main(["genotype","s.bam","-g","g.yml","-p","prof.bam","-n","7:30000-31000","--genome","hg19","--debug","dbg","-o","o1.aldy"])
except SystemExit as e: print("exit",e)
print("t=%.2f"%(time.time()-t), os.path.exists("dbg.tar.gz"))
os.system("tar tzf dbg.tar.gz")
r1=genotype("g.yml","s.bam","prof.bam",output_file=None,cn_region=CNR,genome="hg19")
r2=genotype("g.yml","dbg.tar.gz",None,output_file=open("o2.aldy","w"))
def summ(r): return [(s.get_minor_diplotype(), round(s.score,4), dict(s.major_solution.cn_solution.solution)) for v in r.values() for s in v]
print(summ(r1)); print(summ(r2))
os.system("diff o1.aldy o2.aldy && echo SAMEOUT")
