exec(open('proto.py').read().split("t=time.time()\nprint(\"profile reads\"")[0])
import logbook; logbook.NullHandler().push_application()
from aldy.sam import Sample
from aldy.profile import Profile
def wb(path, recs, fmt="wb", sort=True):
    hdr={"HD":{"VN":"1.0","SO":"coordinate" if sort else "unsorted"},"SQ":[{"SN":"7","LN":CONTIG_LEN}]}
    if sort: recs=sorted(recs,key=lambda r:r["pos"])
    with pysam.AlignmentFile(path,fmt,header=hdr) as f:
        for r in recs:
            a=pysam.AlignedSegment(f.header)
            a.query_name=r["name"]; a.flag=r.get("flag",0)
            if r.get("cigar") is None:
                a.reference_id=0; a.reference_start=r["pos"]; a.query_sequence=r["seq"]; a.flag|=4
            else:
                a.reference_id=0; a.reference_start=r["pos"]; a.cigarstring=r["cigar"]; a.query_sequence=r["seq"]
            a.mapping_quality=r.get("mq",60)
            a.query_qualities=pysam.qualitystring_to_array("".join(chr(33+q) for q in r.get("quals",[40]*len(r["seq"]))))
            f.write(a)
    if fmt=="wb": pysam.index(path)
g0=20300
s=genome[g0:g0+60]
recs=[
 dict(name="a",pos=g0,cigar="60M",seq=s),
 dict(name="b",pos=g0,cigar="20=1X39=",seq=s[:20]+("A" if s[20]!="A" else "C")+s[21:]),
 dict(name="c",pos=g0+5,cigar="5S3I40M2D10M2S",seq="N"*5+"GGG"+genome[g0+5:g0+45]+genome[g0+47:g0+57]+"NN"),
 dict(name="d",pos=g0,cigar="10H50M",seq=s[:50]),
 dict(name="e",pos=g0,cigar="60M",seq=s,flag=2048),
 dict(name="f",pos=g0,cigar="60M",seq=s,flag=256),
 dict(name="g",pos=g0,cigar="60M",seq=s,flag=1024),
 dict(name="h",pos=g0,cigar=None,seq=s),
 dict(name="i",pos=g0+3,cigar="10M5I5D10M",seq=genome[g0+3:g0+13]+"TTTTT"+genome[g0+18:g0+28]),
]
wb("w.bam",recs)
for ip in [True, False]:
    try:
        smp=Sample(gene,Profile("u",cn_solution=["1","1"],indelpost=ip),"w.bam")
        c=smp.coverage
        print("indelpost",ip,[c.total(p) for p in range(g0-1,g0+8)], c._coverage.get(g0+20), [k for k in c._coverage.get(g0+5,{})], c._coverage.get(g0+45))
    except Exception as e:
        import traceback; traceback.print_exc()
wb("w.sam",recs,fmt="w",sort=False)
try:
    smp=Sample(gene,Profile("u",cn_solution=["1","1"]),"w.sam")
    print("sam ok",[smp.coverage.total(p) for p in range(g0-1,g0+8)])
except Exception as e:
    print("SAM EXC",type(e).__name__,e)
