exec(open('proto.py').read().split("# ---------- simulator")[0])
import io, collections
from aldy.solutions import CNSolution, MajorSolution, SolvedAllele, MinorSolution
from aldy.coverage import Coverage
from aldy.profile import Profile
from aldy.diplotype import write_vcf, write_decomposition, estimate_diplotype
from aldy.gene import Mutation
import logbook; logbook.NullHandler().push_application()
def sol(spec):
    sa=[SolvedAllele(gene,ma,mi,list(ad),list(ms)) for ma,mi,ad,ms in spec]
    cn=CNSolution(gene,0,[gene.alleles[a.major].cn_config for a in sa])
    m=MinorSolution(0,sa,MajorSolution(0,collections.Counter(SolvedAllele(gene,a.major) for a in sa),cn,[]),Profile("t"))
    estimate_diplotype(gene,m); return m
snp250=Mutation(20650,'T>G'); snp720=Mutation(20180,'C>T')
s1=sol([("1","1.002",[],[snp250]),("4","4.001",[],[])])
s2=sol([("2","2.002",[],[]),("5","5.001",[snp250],[])])
cov=Coverage(gene,Profile("t"),None,{m[0]:{m[1]:[(60,60)]*7} for m in gene.mutations},None,{})
f=io.StringIO(); write_vcf("S",gene,cov,[s1,s2],f)
print("\n".join(l for l in f.getvalue().split("\n") if not l.startswith("##")))
f=io.StringIO(); write_decomposition("S",gene,cov,1,s1,f); print(f.getvalue())
