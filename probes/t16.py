exec(open('t14.py').read().split("seed=int(sys.argv[1])")[0])
rng=random.Random(1)
for d in range(6):
    strand,sv=make_db(rng,"r.yml")
    gene=Gene("r.yml",genome="hg19"); sim=Sim(gene,rng.randrange(1<<30))
    rl=rng.choice([50,100,150,250]); step=rl//rng.choice([20,25])
    dflt=[mn for a in gene.alleles.values() if a.cn_config=="1" for mn in a.minors]
    for t in range(4):
        kind=rng.choice(["2","2","3","4","del","left","right","deldel"])
        if kind in ("2","3","4"): names=[rng.choice(dflt) for _ in range(int(kind))]
        elif kind=="del" and "del" in sv: names=[rng.choice(dflt),None]
        elif kind=="deldel" and "del" in sv: names=[None,None]
        elif kind=="left" and "left" in sv:
            lf=[mn for a in gene.alleles.values() if a.cn_config==sv["left"] for mn in a.minors]
            names=[rng.choice(lf),rng.choice(dflt)]+([rng.choice(dflt)] if rng.random()<.5 else [])
        elif kind=="right" and "right" in sv:
            rf=[mn for a in gene.alleles.values() if a.cn_config==sv["right"] for mn in a.minors]
            names=[rng.choice(rf),rng.choice(dflt)]
        else: continue
        if d==5 and names==['1.001','5.001','1.002']:
            def mo(name):
                a,m=gene.get_allele(name); return a.cn_config,set(a.func_muts)|set(m.neutral_muts)
            print({an:(sorted(map(str,a.func_muts)),{k:sorted(map(str,v.neutral_muts)) for k,v in a.minors.items()}) for an,a in gene.alleles.items()})
            sim.sample("p.bam",[mo("1.001")]*2,rl,step)
            sim.sample("s.bam",[mo(n) for n in names],rl,step)
            for ph in [True,False]:
                res=genotype("r.yml","s.bam","p.bam",output_file=None,cn_region=sim.cnr,genome="hg19",phase=ph, gap=0.0)
                print("phase",ph,[(s.get_minor_diplotype(),round(s.score,3)) for v in res.values() for s in v])
            from aldy.sam import Sample
            from aldy.profile import Profile
            smp=Sample(gene,Profile.load(gene,"p.bam",sim.cnr),"s.bam")
            c=collections.Counter(tuple(sorted(v.items())) for v in smp.phases.values() if len(v)>1)
            print(c.most_common(6))
            from aldy.cn import estimate_cn
            from aldy.major import estimate_major
            from aldy.minor import estimate_minor
            prof=smp.profile
            cns=estimate_cn(gene,prof,smp.coverage,"cbc")
            print([str(c) for c in cns])
            mj=estimate_major(gene,smp.coverage,cns[0],"cbc")
            for m in mj: print("MAJ",m._solution_nice(),round(m.score,3))
            for m in [Mutation(*k) for k in gene.mutations]:
                print(str(m), smp.coverage[m], smp.coverage.total(m.pos), smp.coverage._coverage.get(m.pos))
            for m in mj:
                for s in estimate_minor(gene,smp.coverage,[m],"cbc"): print("MIN",s._solution_nice(),round(s.score,3))
            import logbook, sys as _s
            h=logbook.StreamHandler(_s.stdout,level="DEBUG",format_string="{record.message}"); h.push_application()
            for ph in (True,False):
                prof.phase=ph
                for m in mj:
                    estimate_minor(gene,smp.coverage,[m],"cbc")
            h.pop_application()
            from aldy import lpinterface
            orig=lpinterface.model; cap=[]
            def rec(name,solver):
                m=orig(name,solver); cap.append(m); return m
            lpinterface.model=rec
            prof.phase=False
            estimate_minor(gene,smp.coverage,[mj[0]],"cbc")
            m=cap[-1]
            print("NONZERO",[(v.name(),round(v.solution_value(),3)) for v in m.model.variables() if (v.name().startswith("E_") or v.name().startswith("ABS")) and abs(v.solution_value())>1e-6])
            print("INDELS",smp.coverage._indels, {k:v for k,v in smp._indel_sites.items()})
