"""G-DB dual build with alignment indels + R-SEQ check (C08) prototype."""
import random, yaml, sys, collections
from aldy.gene import Gene, Mutation
from aldy.common import rev_comp
import logbook; logbook.NullHandler().push_application()
COD=["GCT","GAT","AAA","CTG","CCA","TCC","ACG","GGT","CAT","TTC","AGC","GTA","TGG","ATC"]
def build_map(L,strand,start,cig):
    """return ref0->chr0 dict and genome span end (1-based exclusive like yaml 'end')"""
    r2c={}; pr=0 if strand=="+" else L-1; pc=start-1; st=1 if strand=="+" else -1
    for op,sz in cig:
        if op=="M":
            for i in range(sz): r2c[pr+i*st]=pc+i
            pc+=sz; pr+=sz*st
        elif op=="I": pr+=sz*st
        else: pc+=sz
    return r2c,pc+1
def make(rng):
    L=900; s=[rng.choice("ACGT") for _ in range(L)]
    ex=[(101,201),(301,401),(501,601)]
    expos=[i for a,b in ex for i in range(a-1,b-1)]
    for j in range(0,len(expos)-2,3):
        c=rng.choice(COD) if j else "ATG"
        for t in range(3): s[expos[j+t]]=c[t]
    seq="".join(s)
    names=["up","e1","i1","e2","i2","e3","down"]; bounds=[1,101,201,301,401,501,601,L+1]
    maps={}; regs={}
    for build in ("hg19","hg38"):
        strand=rng.choice("+-"); start=rng.randrange(3000,9000)
        if rng.random()<.6:
            # alignment indels inside intron 1 (refseq 201..300) and intron 2 (401..500)
            a=rng.randrange(215,285); b=rng.randrange(1,4); d=rng.randrange(1,4); c2=rng.randrange(415,485)
            if strand=="+": cig=[("M",a),("I",b),("M",c2-a-b),("D",d),("M",L-c2)]
            else:
                # walked in genome order = refseq descending
                cig=[("M",L-c2),("D",d),("M",c2-a-b),("I",b),("M",a)]
        else: cig=[("M",L)]
        r2c,end=build_map(L,strand,start,cig)
        maps[build]=["5",start,end,strand," ".join(f"{o}{n}" for o,n in cig)]
        rg={}
        for i,n in enumerate(names):
            if n.startswith("i"): continue
            a0,b0=bounds[i]-1,bounds[i+1]-2   # ref0 inclusive ends; exons/up/down boundaries are all mapped (indels are in introns)
            g=sorted([r2c[a0],r2c[b0]])
            rg[n]=[g[0]+1,g[1]+2]
        # stretch up/down to span edges
        regs[build]=rg
    sites=[]; used=set()
    while len(sites)<8:
        p=rng.randrange(10,L-12)
        if any(abs(p-q)<14 for q in used) or 195<=p<=305 and False: continue
        if any(lo-8<=p<=hi+8 for lo,hi in [(201,300),(401,500)]) and rng.random()<.7: continue
        used.add(p); kind=rng.choice(["snp","mnp","ins","del","delins"])
        if kind=="snp": op=f"{seq[p-1]}>{rng.choice([c for c in 'ACGT' if c!=seq[p-1]])}"
        elif kind=="mnp":
            l=seq[p-1:p+2]; r="".join(rng.choice([c for c in 'ACGT' if c!=x]) for x in l); op=f"{l[0]}.{l[2]}>{r[0]}.{r[2]}"
        elif kind=="ins": op="ins"+"".join(rng.choice("ACGT") for _ in range(rng.randrange(1,6)))
        elif kind=="del": op="del"+seq[p-1:p-1+rng.randrange(1,6)]
        else: op="del"+seq[p-1:p-1+rng.randrange(2,5)]+"ins"+"".join(rng.choice("ACGT") for _ in range(rng.randrange(1,4)))
        sites.append([p,op,"-"]+(["fx"] if rng.random()<.5 else []))
    alleles={"G*1.001":{"mutations":[]}}
    for i,sx in enumerate(sites): alleles[f"G*{i+2}.001"]={"mutations":[sx]}
    db={"name":"G","version":"t","generated":"x","alleles":alleles,
        "structure":{"genes":["G"],"regions":regs,"cn_regions":["e1","e2","e3"]},
        "reference":{"name":"NG_X","mappings":maps,"exons":[list(e) for e in ex],"seq":seq}}
    return db,seq,sites
def apply_ref(seq,p1,op):
    i=p1-1
    if ">" in op:
        l,r=op.split(">"); s=list(seq)
        for k,(a,b) in enumerate(zip(l,r)):
            if a!=".": assert s[i+k]==a; s[i+k]=b
        return "".join(s)
    if op.startswith("ins"): return seq[:i+1]+op[3:]+seq[i+1:]
    if "ins" in op[3:]:
        d,ins=op[3:].split("ins"); assert seq[i:i+len(d)]==d; return seq[:i]+ins+seq[i+len(d):]
    d=op[3:]; assert seq[i:i+len(d)]==d; return seq[:i]+seq[i+len(d):]
def apply_gen(g,lo,hi,pos,op):
    w=g[lo:hi]; i=pos-lo
    if ">" in op:
        l,r=op.split(">"); s=list(w)
        for k,(a,b) in enumerate(zip(l,r)):
            if a!=".":
                if s[i+k]!=a: return None
                s[i+k]=b
        return "".join(s)
    if op.startswith("ins"): return w[:i+1]+op[3:]+w[i+1:]
    if "ins" in op[3:]:
        d,ins=op[3:].split("ins")
        if w[i:i+len(d)]!=d: return None
        return w[:i]+ins+w[i+len(d):]
    d=op[3:]
    if w[i:i+len(d)]!=d: return None
    return w[:i]+w[i+len(d):]
rng=random.Random(int(sys.argv[1])); st=collections.Counter(); shown=0
for it in range(int(sys.argv[2])):
    db,seq,sites=make(rng); open("d.yml","w").write(yaml.dump(db))
    for build in ("hg19","hg38"):
        try: g=Gene("d.yml",genome=build)
        except Exception as e: st["loadfail"]+=1; print("LOAD",type(e).__name__,e,db["reference"]["mappings"][build]); continue
        written={(p-1,op) for p,op,*_ in sites}
        for (gpos,gop),(fn,rs,rpos,opos,oop) in g.mutations.items():
            st["var"]+=1; st["strand"+str(g.strand)]+=1
            W=12
            # window in refseq: [opos-W, opos+W+len) -> must be single block: check contiguity in chr
            lo_r,hi_r=max(0,opos-W),min(len(seq),opos+W+8)
            cpos=[g.ref_to_chr.get(r) for r in range(lo_r,hi_r)]
            if None in cpos or any(abs(cpos[k+1]-cpos[k])!=1 for k in range(len(cpos)-1)): st["crosses_gap"]+=1; continue
            lo_c,hi_c=min(cpos),max(cpos)+1
            exp=apply_ref(seq,opos+1,oop)[lo_r:hi_r+ (len(apply_ref(seq,opos+1,oop))-len(seq))]
            got=apply_gen(g,lo_c,hi_c,gpos,gop)
            if got is None: st["refmismatch"]+=1; ok=False
            else:
                if g.strand<0: got=rev_comp(got)
                ok=(got==exp)
            if not ok:
                st["FAIL"]+=1
                if shown<5: shown+=1; print(build,g.strand,(opos+1,oop),"->",(gpos,gop),exp,got)
            if g.get_refseq((gpos,gop))!=f"{opos+1}{oop}": st["refseq_notation"]+=1
print(dict(st))
