import glob, collections
from aldy.gene import Gene
import logbook; logbook.NullHandler().push_application()
def cat(g):
    out={}
    for an,a in g.alleles.items():
        out[an]=(a.cn_config, tuple(sorted(g.get_refseq(m) for m in a.func_muts)), tuple(sorted((mn, tuple(sorted(g.get_refseq(m) for m in mi.neutral_muts))) for mn,mi in a.minors.items())))
    return out
for f in sorted(glob.glob('/repo/aldy/resources/genes/*.yml')):
    a=Gene(f,genome="hg19"); b=Gene(f,genome="hg38")
    ca,cb=cat(a),cat(b)
    cfa={k:(v.kind.name,v.vector) for k,v in a.cn_configs.items()}; cfb={k:(v.kind.name,v.vector) for k,v in b.cn_configs.items()}
    if ca!=cb or cfa!=cfb or a.removed!=b.removed:
        d=[k for k in set(ca)|set(cb) if ca.get(k)!=cb.get(k)]
        print(a.name,"DIFF alleles",len(d),d[:5],"cfg",[k for k in set(cfa)|set(cfb) if cfa.get(k)!=cfb.get(k)][:5], a.strand,b.strand)
    # unreachable names
    import yaml
    y=a._yml
    names=[n.split("*",1)[1].replace("/","_") if "*" in n else n for n,v in y["alleles"].items() if n not in("random","groups") and not v.get("ignored")]
    miss=[n for n in names if a.get_allele(n) is None]
    if miss: print(a.name,"unreachable",miss[:8],len(miss))
    # duplicate majors
    keys=collections.Counter((x.cn_config,tuple(sorted(x.func_muts))) for x in a.alleles.values())
    dup=[k for k,c in keys.items() if c>1]
    if dup: print(a.name,"dup majors",len(dup))
print("done")
