import random, itertools, collections, sys
from aldy.gene import Gene
from aldy.common import script_path
from aldy.solutions import CNSolution, MajorSolution, SolvedAllele, MinorSolution
from aldy.diplotype import estimate_diplotype
import logbook; logbook.NullHandler().push_application()
genes=[Gene(script_path("aldy.tests.resources/toy.yml")),Gene(script_path("aldy.resources.genes/cyp2d6.yml")),Gene(script_path("aldy.resources.genes/cyp2a6.yml")),Gene(script_path("aldy.resources.genes/cyp2c19.yml"))]
rng=random.Random(1); bad=collections.Counter(); ex={}
for it in range(20000):
    g=rng.choice(genes); n=rng.randrange(0,7)
    majors=list(g.alleles)
    # bias to tandem members
    tm=[x for t in g.common_tandems for x in t]
    pick=[]
    for _ in range(n):
        if tm and rng.random()<.4:
            c=rng.choice(tm); opts=[a for a in majors if a.split("#")[0]==c or a==c]
            pick.append(rng.choice(opts) if opts else rng.choice(majors))
        else: pick.append(rng.choice(majors))
    def mk(order):
        sol=[SolvedAllele(g,a,rng.choice(list(g.alleles[a].minors))) for a in order]
        cn=CNSolution(g,0,[g.alleles[a].cn_config for a in order])
        ms=MinorSolution(0,sol,MajorSolution(0,collections.Counter(SolvedAllele(g,a) for a in order),cn,[]))
        d=estimate_diplotype(g,ms); return ms,d
    ms,d=mk(pick)
    flat=[i for h in d for i in h]
    dele=g.deletion_allele()
    expect=sorted(list(range(n))+([-1]*max(0,2-n) if dele else []))
    if sorted(flat)!=expect: bad["partition"]+=1; ex.setdefault("partition",(g.name,pick,d))
    if n>=2 and (not d[0] or not d[1]): bad["empty_hap"]+=1; ex.setdefault("empty_hap",(g.name,pick,d))
    if n<=2 and n>0:
        strs=set()
        for perm in itertools.permutations(pick):
            m2,_=mk(list(perm)); strs.add(m2.get_major_diplotype())
        if len(strs)>1: bad["order_dep"]+=1; ex.setdefault("order_dep",(g.name,pick,strs))
    if n>2:
        for ta,tb in g.common_tandems:
            def num(a):
                import re
                x=a.split("#")[0]; c=re.split(r"(\d+)",x); return c[0] if c[0]!="" else c[1]
            ia=[i for i,a in enumerate(pick) if num(a)==ta]; ib=[i for i,a in enumerate(pick) if num(a)==tb]
            k=min(len(ia),len(ib)) if ta!=tb else 0
            if k:
                adj=0
                for h in d:
                    for x,y in zip(h,h[1:]):
                        if x in ia and y in ib: adj+=1
                if adj<k: bad["tandem"]+=1; ex.setdefault("tandem",(g.name,pick,d,(ta,tb)))
print(dict(bad)); 
for k,v in ex.items(): print(k,v)
