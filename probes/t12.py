import itertools, random, collections, sys
from aldy.gene import Gene, Mutation
from aldy.common import script_path
from aldy.profile import Profile
from aldy.coverage import Coverage
from aldy.solutions import CNSolution
from aldy.major import estimate_major
import logbook; logbook.NullHandler().push_application()
gene=Gene(script_path("aldy.tests.resources/toy.yml"))

def qfilter(raw, prof):
    return {p:{o:[x for x in v if x[1]>=prof.min_quality and x[0]>=prof.min_mapq] for o,v in ops.items()} for p,ops in raw.items()}
def rmaj(gene, prof, raw, cnsol):
    t1={p:{o:v for o,v in ops.items() if v} for p,ops in qfilter(raw,prof).items()}
    def tot(t,p): return sum(len(v) for o,v in t.get(p,{}).items() if not o.startswith("ins"))
    def cnt(t,p,o): return len(t.get(p,{}).get(o,[]))
    def pcn(p):
        r=gene.region_at(p); return cnsol.region_cn[r[0]][r[1]] if r else 0
    t2={}
    for p,ops in t1.items():
        t2[p]={}
        for o,v in ops.items():
            ok=len(v)>=max(prof.min_coverage, tot(t1,p)*prof.threshold/prof.cn_max)
            if o!="_": ok=ok and len(v)>=max(prof.min_coverage, tot(t1,p)*prof.threshold/(pcn(p)+0.5))
            if ok: t2[p][o]=v
    cands={an:a for an,a in gene.alleles.items() if a.cn_config in cnsol.solution and all(cnt(t2,m.pos,m.op)>0 for m in a.func_muts)}
    if set(cnsol.solution)-set(a.cn_config for a in cands.values()): return None,{}
    F=[Mutation(*m) for m in gene.mutations if gene.is_functional(m) and cnt(t2,m[0],m[1])>0]
    def single(p):
        c=pcn(p)
        return 0 if c==0 else max(1,tot(t2,p))/c
    per=[]
    for cf,n in sorted(cnsol.solution.items()):
        per.append(list(itertools.combinations_with_replacement(sorted(a for a in cands if cands[a].cn_config==cf), n)))
    out={}
    for combo in itertools.product(*per):
        sel=[a for part in combo for a in part]
        novel=[m for m in F if not any(m in cands[a].func_muts for a in sel)]
        bypos=collections.Counter(m.pos for m in novel if not m.op.startswith("ins"))
        if any(v>1 for v in bypos.values()): continue
        err=0
        for m in F:
            s=single(m.pos); c=cnt(t2,m.pos,m.op)/s if s else 0
            err+=abs(c-sum(1 for a in sel if m in cands[a].func_muts)-(1 if m in novel else 0))
        for p in set(m.pos for m in F):
            s=single(p); c=cnt(t2,p,"_")/s if s else 0
            e=sum(1 for a in sel if gene.has_coverage(a,p) and not any(x.pos==p and not x.op.startswith("ins") for x in cands[a].func_muts))
            err+=abs(c-e)
        score=err+(prof.major_novel if novel else 0)+0.1*len(novel)
        out[(tuple(sorted(sel)),tuple(sorted(novel)))]=score
    return cands,out

rng=random.Random(int(sys.argv[1]))
sites=[(m,gene.is_functional(m)) for m in gene.mutations]
bad=0; nt=0
for it in range(int(sys.argv[2])):
    prof=Profile("t"); prof.gap=rng.choice([0,0.1,0.5])
    struct=rng.choice([["1","1"],["1"],["1","1","1"],["1","4"],["1","5"],["1","6"],["4","4","1"]])
    cn=CNSolution(gene,0,struct)
    pool=[a for a in gene.alleles]
    sel=[]
    for cf in struct:
        opts=[a for a in pool if gene.alleles[a].cn_config==cf]
        sel.append(rng.choice(opts))
    d=rng.choice([10,20,30])
    raw=collections.defaultdict(dict)
    for (p,o),f in sites:
        if not f and rng.random()<.7: continue
        car=sum(1 for a in sel if Mutation(p,o) in gene.alleles[a].func_muts)
        if rng.random()<.15: car+=1
        n=max(0,round(d*car*rng.uniform(.6,1.4)))
        if n: raw[p][o]=[(60,60)]*n
    for p in set(p for (p,o),f in sites):
        e=sum(1 for a in sel if gene.has_coverage(a,p) and not any(x.pos==p and not x.op.startswith("ins") for x in gene.alleles[a].func_muts))
        n=max(0,round(d*e*rng.uniform(.6,1.4)))
        if n: raw[p]["_"]=[(60,60)]*n
    cov=Coverage(gene,prof,None,{p:dict(v) for p,v in raw.items()},None,{})
    sols=estimate_major(gene,cov,cn,"cbc")
    cands,ref=rmaj(gene,prof,raw,cn)
    rep={(tuple(sorted(a.major for a in s.solution.elements())),tuple(sorted(s.added))):s.score for s in sols}
    msgs=[]
    if not ref:
        if rep: msgs.append(("rep but no ref",rep))
    else:
        best=min(ref.values())
        if len(ref)>1: nt+=1
        if not rep: msgs.append(("no rep", best))
        else:
            if abs(min(rep.values())-best)>1e-4: msgs.append(("opt",min(rep.values()),best))
            for k,v in rep.items():
                if k not in ref: msgs.append(("inadmissible",k))
                elif abs(v-ref[k])>1e-4: msgs.append(("score",k,v,ref[k]))
            exp={k for k,v in ref.items() if v<=(1+prof.gap)*best-2e-4} ; may={k for k,v in ref.items() if v<=(1+prof.gap)*best+2e-4}
            if not (exp<=set(rep)<=may): msgs.append(("set",sorted(exp-set(rep)),sorted(set(rep)-may)))
    if msgs: bad+=1; print(it,struct,sel,prof.gap,msgs[:2])
print("bad",bad,"nontrivial",nt)
