exec(open('t14.py').read().split("seed=int(sys.argv[1])")[0])
from aldy.sam import Sample
from aldy.profile import Profile
from aldy.cn import estimate_cn
rng=random.Random(1)
for d in range(12):
    strand,sv=make_db(rng,"r.yml")
    gene=Gene("r.yml",genome="hg19"); sim=Sim(gene,rng.randrange(1<<30))
    rl=rng.choice([50,100,150,250]); step=rl//rng.choice([20,25])
    dflt=[mn for a in gene.alleles.values() if a.cn_config=="1" for mn in a.minors]
    for t in range(4):
        kind=rng.choice(["2","2","3","4","del","left","right","deldel"])
        if kind in ("2","3","4"): names=[rng.choice(dflt) for _ in range(int(kind))]
        elif kind=="del" and "del" in sv: names=[rng.choice(dflt),None]
        elif kind=="deldel" and "del" in sv: names=[None,None]
        elif kind=="left" and "left" in sv:
            lf=[mn for a in gene.alleles.values() if a.cn_config==sv["left"] for mn in a.minors]
            names=[rng.choice(lf),rng.choice(dflt)]+([rng.choice(dflt)] if rng.random()<.5 else [])
        elif kind=="right" and "right" in sv:
            rf=[mn for a in gene.alleles.values() if a.cn_config==sv["right"] for mn in a.minors]
            names=[rng.choice(rf),rng.choice(dflt)]
        else: continue
        if d==11 and names==['3.002','2.002','2.001','2.001']:
            def mo(name):
                a,m=gene.get_allele(name); return a.cn_config,set(a.func_muts)|set(m.neutral_muts)
            sim.sample("p.bam",[mo("1.001")]*2,rl,step)
            sim.sample("s.bam",[mo(n) for n in names],rl,step)
            prof=Profile.load(gene,"p.bam",sim.cnr)
            smp=Sample(gene,prof,"s.bam")
            print({k:round(v,2) for k,v in smp.coverage._region_coverage.items()})
            print(gene.cn_configs.keys(), sv)
            prof.gap=0.3
            for s in estimate_cn(gene,prof,smp.coverage,"cbc"): print(s)
            import t9
