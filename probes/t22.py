"""C06 prototype: random read sets -> BAM -> Sample vs independent CIGAR interpreter."""
exec(open('t14.py').read().split("seed=int(sys.argv[1])")[0])
from aldy.sam import Sample
from aldy.profile import Profile
def binq(q):
    if q<2: return int(q)
    if q<10: return 6
    if q<20: return 15
    if q<29: return 25
    if q<39: return 35
    return 40
OPS={"M":0,"I":1,"D":2,"S":4,"H":5,"=":7,"X":8}
def gen_read(rng,G,lo,hi,i):
    start=rng.randrange(lo,hi); p=start; cig=[]; seq=[]
    if rng.random()<.1: cig.append(("H",rng.randrange(1,10)))
    if rng.random()<.2:
        n=rng.randrange(1,8); cig.append(("S",n)); seq+=[rng.choice("ACGT") for _ in range(n)]
    nb=rng.randrange(1,7)
    for b in range(nb):
        k=rng.choice("MMMM=XID")
        if k in "ID" and b==nb-1: k="M"
        n=rng.randrange(1,30 if k in "M=" else 6)
        if k=="M":
            for _ in range(n):
                c=G[p]; 
                if rng.random()<.08: c=rng.choice([x for x in "ACGT" if x!=c])
                seq.append(c); p+=1
        elif k=="=":
            for _ in range(n): seq.append(G[p]); p+=1
        elif k=="X":
            for _ in range(n): seq.append(rng.choice([x for x in "ACGT" if x!=G[p]])); p+=1
        elif k=="I": seq+=[rng.choice("ACGT") for _ in range(n)]
        else: p+=n
        if cig and cig[-1][0]==k: cig[-1]=(k,cig[-1][1]+n)
        else: cig.append((k,n))
    if rng.random()<.2:
        n=rng.randrange(1,8); cig.append(("S",n)); seq+=[rng.choice("ACGT") for _ in range(n)]
    flag=0
    for f,pb in ((256,.1),(2048,.1),(1024,.1),(512,.05),(16,.3)):
        if rng.random()<pb: flag|=f
    return dict(name=f"r{i}",pos=start,cig=cig,seq="".join(seq),flag=flag,mq=rng.randrange(0,61),quals=[rng.randrange(0,42) for _ in seq])
def ref_pile(reads,gene,wide):
    tab=collections.defaultdict(lambda: collections.defaultdict(list))
    for r in reads:
        if r["flag"]&2048 or any(k=="H" for k,_ in r["cig"]): continue
        end=r["pos"]+sum(n for k,n in r["cig"] if k in "M=XD")
        a=(r["pos"],end); b=(wide.start,wide.end)
        if not (a[0]<=b[0]<=a[1] or b[0]<=a[0]<=b[1]): continue
        p=r["pos"]; s=0; prevq=10
        for k,n in r["cig"]:
            if k in "M=X":
                for i in range(n):
                    q=r["quals"][s+i]; base=r["seq"][s+i]
                    if (p+i) in gene and gene[p+i]!=base: op=f"{gene[p+i]}>{base}"
                    else: op="_"
                    tab[p+i][op].append((binq(r["mq"]),binq(q))); prevq=q
                p+=n; s+=n
            elif k=="D":
                for i in range(n): tab[p+i]["-"].append((binq(r["mq"]),binq(prevq)))
                p+=n
            elif k=="I":
                qs=r["quals"][s:s+n]; prevq=sum(qs)/len(qs); s+=n
            elif k=="S": s+=n
    return tab
rng=random.Random(int(sys.argv[1])); bad=0; ncase=0; stats=collections.Counter()
for d in range(int(sys.argv[2])):
    strand,sv=make_db(rng,"r.yml"); gene=Gene("r.yml",genome="hg19"); sim=Sim(gene,rng.randrange(1<<30)); G=sim.genome
    wide=gene.get_wide_region()
    for t in range(5):
        reads=[gen_read(rng,G,wide.start-700,wide.end+100,i) for i in range(rng.randrange(5,80))]
        hdr={"HD":{"VN":"1.0","SO":"coordinate"},"SQ":[{"SN":gene.chr,"LN":sim.L}]}
        with pysam.AlignmentFile("c.bam","wb",header=hdr) as f:
            for r in sorted(reads,key=lambda r:r["pos"]):
                a=pysam.AlignedSegment(f.header); a.query_name=r["name"]; a.flag=r["flag"]; a.reference_id=0; a.reference_start=r["pos"]
                a.cigartuples=[(OPS[k],n) for k,n in r["cig"]]; a.query_sequence=r["seq"]; a.mapping_quality=r["mq"]
                a.query_qualities=pysam.qualitystring_to_array("".join(chr(33+q) for q in r["quals"])); f.write(a)
        pysam.index("c.bam")
        ncase+=1
        try:
            smp=Sample(gene,Profile("u",cn_solution=["1","1"],indelpost=rng.random()<.5),"c.bam")
        except Exception as e:
            bad+=1; stats["EXC_"+type(e).__name__]+=1
            if stats["EXC_"+type(e).__name__]<3:
                import traceback; print(traceback.format_exc()[-600:])
            continue
        exp=ref_pile(reads,gene,wide)
        cov=smp.coverage._coverage
        lo,hi=min(gene.chr_to_ref),max(gene.chr_to_ref)
        diffs=[]
        for p in range(wide.start,wide.end):
            e={o:sorted(v) for o,v in exp.get(p,{}).items()}
            if not lo<=p<=hi: e=({"_":sorted(x for v in e.values() for x in v)} if e else {})
            g={o:sorted(v) for o,v in cov.get(p,{}).items() if not o.startswith("ins")}
            if e!=g: diffs.append((p,e,g))
        if diffs:
            bad+=1; stats["DIFF"]+=1
            if stats["DIFF"]<4: print("DIFF",len(diffs),diffs[0], [ (r["pos"],"".join(f"{n}{k}" for k,n in r["cig"]),r["flag"]) for r in reads if r["pos"]<=diffs[0][0]<r["pos"]+200][:4])
print("cases",ncase,"bad",bad,dict(stats))
