import collections
from aldy.gene import Gene, Mutation
from aldy.common import script_path
from aldy.profile import Profile
from aldy.coverage import Coverage
from aldy.solutions import CNSolution, MajorSolution, SolvedAllele
from aldy.minor import estimate_minor
from aldy.cn import estimate_cn
import logbook; logbook.NullHandler().push_application()
g=Gene(script_path("aldy.tests.resources/toy.yml"))
# D9: site 100000114 T>A (silent, minor 1.002 / '1B'): total 30, variant 5
def cov():
    c=collections.defaultdict(dict)
    c[100000114]["_"]=[(60,60)]*25; c[100000114]["T>A"]=[(60,60)]*5
    return Coverage(g,Profile("t"),None,c,None,{})
X=MajorSolution(0,{SolvedAllele(g,"1"):2},CNSolution(g,0,["1","1"]),[])
Y=MajorSolution(0,{SolvedAllele(g,"1"):3},CNSolution(g,0,["1","1","1"]),[])
def show(ms):
    r=estimate_minor(g,cov(),ms,"cbc")
    return [(len(s.solution),sorted((a.minor,tuple(a.added),tuple(a.missing)) for a in s.solution),round(s.score,3)) for s in r]
print("X alone ",show([X]))
print("X then Y",show([X,Y]))
print("Y then X",show([Y,X]))
# D10
gx=Gene(script_path("aldy.resources.genes/g6pd.yml"))
print("chr",gx.chr, "do_cn",gx.do_copy_number)
print("no-cn male:",dict(estimate_cn(gx,Profile("t",male=True),None,"cbc")[0].solution), " vcf-route profile male:",dict(estimate_cn(gx,Profile("user_provided",cn_solution=["1","1"],male=True),None,"cbc")[0].solution))
