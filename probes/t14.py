"""Random sweep: generated DB (random variants/alleles/strand) x planted samples -> genotype()."""
import random, yaml, os, sys, time, collections, itertools
import pysam
from aldy.gene import Gene, Mutation
from aldy.common import rev_comp, GRange
from aldy.genotype import genotype
import logbook; logbook.NullHandler().push_application()
COD=["GCT","GAT","AAA","CTG","CCA","TCC","ACG","GGT","CAT","TTC","AGC","GTA","TGG","ATC"]
def make_db(rng, path):
    strand=rng.choice("+-"); L=900; base=rng.randrange(5000,20000); pseudo=True
    s=[rng.choice("ACGT") for _ in range(L)]
    ex=[(101,201),(301,401),(501,601)]
    expos=[i for a,b in ex for i in range(a-1,b-1)]
    for j in range(0,len(expos)-2,3):
        c=rng.choice(COD) if j else "ATG"
        for t in range(3): s[expos[j+t]]=c[t]
    seq="".join(s)
    bounds=[1,101,201,301,401,501,601,L+1]; names=["up","e1","i1","e2","i2","e3","down"]
    start=base; end=base+L
    g=(lambda p: start+p-1) if strand=="+" else (lambda p: start+(L-p))
    regions={}; off=3000
    for i,n in enumerate(names):
        if n.startswith("i"): continue
        a,b=bounds[i],bounds[i+1]
        ga,gb=(g(a),g(b-1)+1) if strand=="+" else (g(b-1),g(a)+1)
        regions[n]=[ga,gb,ga+off,gb+off]
    # variant sites
    nsite=rng.randrange(4,9); sites=[]; used=set()
    while len(sites)<nsite:
        p=rng.randrange(20,L-20)
        if any(abs(p-q)<15 for q in used): continue
        used.add(p)
        kind=rng.choice(["snp","snp","snp","ins","del"])
        func=rng.random()<.5
        if kind=="snp":
            r=seq[p-1]; alt=rng.choice([c for c in "ACGT" if c!=r]); op=f"{r}>{alt}"
        elif kind=="ins":
            ins="".join(rng.choice("ACGT") for _ in range(rng.randrange(1,7)))
            # avoid shiftable insertion: inserted seq should not equal flanks
            if ins[0]==seq[p] or ins[-1]==seq[p-1]: used.discard(p); continue
            op="ins"+ins
        else:
            ln=rng.randrange(1,6); dl=seq[p-1:p-1+ln]
            if seq[p-2]==dl[-1] or seq[p-1+ln]==dl[0]: used.discard(p); continue
            op="del"+dl
        sites.append([p,op,"-"]+(["fx%d"%len(sites)] if func else []))
    alleles={"G*1.001":{"mutations":[]}}
    funcs=[s for s in sites if len(s)>3]; sil=[s for s in sites if len(s)==3]
    k=2
    for f in funcs:
        alleles[f"G*{k}.001"]={"mutations":[f]}
        if sil and rng.random()<.6: alleles[f"G*{k}.002"]={"mutations":[f,rng.choice(sil)]}
        k+=1
    if len(funcs)>=2 and rng.random()<.6:
        alleles[f"G*{k}.001"]={"mutations":funcs[:2]}; k+=1
    for x in sil:
        if rng.random()<.5: alleles[f"G*1.{len([a for a in alleles if a.startswith('G*1.')])+1:03d}"]={"mutations":[x]}
    sv={}
    if rng.random()<.7: alleles[f"G*{k}.001"]={"mutations":[["G","deletion"]]}; sv["del"]=str(k); k+=1
    if rng.random()<.6: alleles[f"G*{k}.001"]={"mutations":[["GP",rng.choice(["e2","i2","e3","i1"])+"-"]]}; sv["left"]=str(k); k+=1
    if rng.random()<.6: alleles[f"G*{k}.001"]={"mutations":[["GP",rng.choice(["i1","e2","i2","e3"])+"+"]]}; sv["right"]=str(k); k+=1
    db={"name":"G","version":"t","generated":"x","alleles":alleles,
        "structure":{"genes":["G","GP"],"regions":{"hg19":regions},"cn_regions":["e1","i1","e2","i2","e3"]},
        "reference":{"name":"NG_X","mappings":{"hg19":["7",start,end,strand,f"M{L}"]},"exons":[list(e) for e in ex],"seq":seq}}
    open(path,"w").write(yaml.dump(db))
    return strand, sv

class Sim:
    def __init__(self, gene, seed):
        self.gene=gene; r=random.Random(seed)
        wide=gene.get_wide_region(); self.L=wide.end+3000
        gen=[r.choice("ACGT") for _ in range(self.L)]
        lo,hi=gene._lookup_range
        for i in range(lo,hi):
            if gene[i]!="N": gen[i]=gene[i]
        self.genome="".join(gen); self.cnr=GRange(gene.chr,wide.end+1000,wide.end+2000)
    def write(self,path,reads):
        hdr={"HD":{"VN":"1.0","SO":"coordinate"},"SQ":[{"SN":self.gene.chr,"LN":self.L}]}
        with pysam.AlignmentFile(path,"wb",header=hdr) as f:
            for name,pos,cig,s in sorted(reads,key=lambda r:r[1]):
                a=pysam.AlignedSegment(f.header); a.query_name=name; a.reference_id=0; a.reference_start=pos
                a.cigartuples=cig; a.query_sequence=s; a.mapping_quality=60; a.flag=0
                a.query_qualities=pysam.qualitystring_to_array("I"*len(s)); f.write(a)
        pysam.index(path)
    def tile(self,tag,s0,s1,muts,rl,step):
        ev=dict(muts); out=[]; n=0; G=self.genome
        for st in range(s0-rl+step,s1,step):
            a=max(st,s0); b=min(st+rl,s1)
            if b<=a: continue
            cig=[]; s=[]
            def add(op,ln):
                if cig and cig[-1][0]==op: cig[-1]=(op,cig[-1][1]+ln)
                else: cig.append((op,ln))
            p=a; bad=False
            while p<b:
                op=ev.get(p)
                if op and op.startswith("ins"):
                    add(0,1); s.append(G[p]); p+=1
                    if p<b: add(1,len(op)-3); s.append(op[3:])
                elif op and op.startswith("del"):
                    ln=len(op)-3
                    if p>a and p+ln<b: add(2,ln); p+=ln
                    elif p==a: a=p=p+ln
                    else: b=p; break
                elif op and ">" in op: add(0,1); s.append(op[2]); p+=1
                else: add(0,1); s.append(G[p]); p+=1
            if not cig or cig[-1][0] in (1,2): continue
            out.append((f"{tag}_{n}",a,cig,"".join(s))); n+=1
        return out
    def sample(self,path,copies,rl=100,step=5):
        gene=self.gene; reads=[]
        for ci,(conf,muts) in enumerate(copies):
            cn=gene.cn_configs[conf].cn
            for gi,regs in enumerate(gene.regions):
                # merge adjacent regions with equal k into segments
                items=sorted(regs.items(),key=lambda x:x[1].start)
                segs=[]
                for r,rg in items:
                    k=cn[gi][r]
                    if gi>0 and ci>=2: k-=1
                    if rg.end<=rg.start: continue
                    if segs and segs[-1][2]==k and segs[-1][1]==rg.start: segs[-1][1]=rg.end
                    else: segs.append([rg.start,rg.end,k])
                for s0,s1,k in segs:
                    for c in range(k):
                        m=[(x.pos,x.op) for x in muts if s0<=x.pos<s1] if gi==0 else []
                        reads+=self.tile(f"c{ci}g{gi}s{s0}k{c}",s0,s1,m,rl,step)
        for c in range(2): reads+=self.tile(f"n{c}",self.cnr.start-300,self.cnr.end+300,[],rl,step)
        self.write(path,reads)

seed=int(sys.argv[1]); ndb=int(sys.argv[2]); rng=random.Random(seed)
stats=collections.Counter(); fails=[]
for d in range(ndb):
    strand,sv=make_db(rng,"r.yml")
    gene=Gene("r.yml",genome="hg19"); sim=Sim(gene,rng.randrange(1<<30))
    rl=rng.choice([50,100,150,250]); step=rl//rng.choice([20,25])
    def mo(name):
        a,m=gene.get_allele(name); return a.cn_config,set(a.func_muts)|set(m.neutral_muts),a.name
    sim.sample("p.bam",[mo("1.001")[:2]]*2,rl,step)
    allm=[mn for a in gene.alleles.values() for mn in a.minors]
    dflt=[mn for a in gene.alleles.values() if a.cn_config=="1" for mn in a.minors]
    for t in range(4):
        # admissible sample
        kind=rng.choice(["2","2","3","4","del","left","right","deldel"])
        if not sv: kind="2"
        if kind in ("2","3","4"): names=[rng.choice(dflt) for _ in range(int(kind))]
        elif kind=="del" and "del" in sv: names=[rng.choice(dflt),None]
        elif kind=="deldel" and "del" in sv: names=[None,None]
        elif kind=="left" and "left" in sv:
            lf=[mn for a in gene.alleles.values() if a.cn_config==sv["left"] for mn in a.minors]
            names=[rng.choice(lf),rng.choice(dflt)]+([rng.choice(dflt)] if rng.random()<.5 else [])
        elif kind=="right" and "right" in sv:
            rf=[mn for a in gene.alleles.values() if a.cn_config==sv["right"] for mn in a.minors]
            names=[rng.choice(rf),rng.choice(dflt)]
        else: continue
        dele=gene.deletion_allele()
        copies=[]; pm=collections.Counter(); pmaj=collections.Counter()
        for nm in names:
            if nm is None: copies.append((dele,set())); continue
            c,m,maj=mo(nm); copies.append((c,m)); pmaj[maj]+=1
            for x in m: pm[x]+=1
        # order: complete haplotypes first (non-default configs + deletion first)
        copies.sort(key=lambda c: c[0]=="1")
        sim.sample("s.bam",copies,rl,step)
        stats["cases"]+=1; stats["kind_"+kind]+=1; stats["strand"+strand]+=1
        try:
            res=genotype("r.yml","s.bam","p.bam",output_file=None,cn_region=sim.cnr,genome="hg19")
            sols=[s for v in res.values() for s in v]
            okmaj=any(collections.Counter(a.major for a in s.solution)==pmaj for s in sols)
            okvar=all(collections.Counter(m for a in s.solution for m in (set(gene.alleles[a.major].func_muts)|set(gene.alleles[a.major].minors[a.minor].neutral_muts)|set(a.added))-set(a.missing))==pm for s in sols)
            if not(okmaj and okvar):
                stats["FAIL"]+=1; fails.append((d,strand,rl,step,kind,names,okmaj,okvar,[s.get_minor_diplotype() for s in sols], [dict(s.major_solution.cn_solution.solution) for s in sols][:1], {str(m):gene.region_at(m.pos)[1] for m in pm}))
        except Exception as e:
            stats["EXC"]+=1; fails.append((d,strand,kind,names,type(e).__name__,str(e)[:80]))
print(dict(stats))
for f in fails[:8]: print(f)
