import itertools, random, collections, sys
from aldy.gene import Gene, Mutation
from aldy.common import script_path
from aldy.profile import Profile
from aldy.coverage import Coverage
from aldy.solutions import CNSolution, MajorSolution, SolvedAllele
from aldy.minor import estimate_minor
import logbook; logbook.NullHandler().push_application()
gene=Gene(script_path("aldy.tests.resources/toy.yml"))

def filt(gene, prof, raw, cnsol, mutations):
    t1={p:{o:[x for x in v if x[1]>=prof.min_quality and x[0]>=prof.min_mapq] for o,v in ops.items()} for p,ops in raw.items()}
    t1={p:{o:v for o,v in ops.items() if v} for p,ops in t1.items()}
    def tot(t,p): return sum(len(v) for o,v in t.get(p,{}).items() if not o.startswith("ins"))
    def pcn(p):
        r=gene.region_at(p); return cnsol.region_cn[r[0]][r[1]] if r else 0
    t2={}
    for p,ops in t1.items():
        t2[p]={}
        for o,v in ops.items():
            r=gene.region_at(p)
            if o!="_" and not (Mutation(p,o) in mutations or (r and r[1][0]=="e") or (r and r[1] in ["utr3","utr5","up"])): continue
            ok=len(v)>=max(prof.min_coverage, tot(t1,p)*prof.threshold/prof.cn_max)
            if o!="_": ok=ok and len(v)>=max(prof.min_coverage, tot(t1,p)*prof.threshold/(pcn(p)+0.5))
            if ok: t2[p][o]=v
    return t2, tot, pcn

def rmin(gene, prof, raw, major_counts, cnsol, strict=True):
    majors=list(major_counts)
    mutations=set()
    for A in majors:
        mutations|=set(gene.alleles[A].func_muts)
        for mi in gene.alleles[A].minors.values(): mutations|=set(mi.neutral_muts)
    mutations|=gene.random_mutations
    t2,tot,pcn=filt(gene,prof,raw,cnsol,mutations)
    def cnt(p,o): return len(t2.get(p,{}).get(o,[]))
    def scov(p):
        c=pcn(p); return 0 if c==0 else max(1,tot(t2,p))/c
    muts=sorted(mutations)
    # per-slot options
    def options(A):
        opts=[]
        for mi,M in gene.alleles[A].minors.items():
            D=set(gene.alleles[A].func_muts)|set(M.neutral_muts)
            free=[m for m in D if not gene.is_functional(m) and gene.has_coverage(A,m.pos)]
            forced_keep=[m for m in D if gene.is_functional(m)]
            if any(not gene.has_coverage(A,m.pos) for m in forced_keep): continue  # infeasible slot
            addable=[m for m in muts if m not in D and gene.has_coverage(A,m.pos)]
            for ks in range(len(free)+1):
                for keep in itertools.combinations(free,ks):
                    kept=set(forced_keep)|set(keep)
                    for as_ in range(len(addable)+1):
                        for add in itertools.combinations(addable,as_):
                            car=kept|set(add)
                            # one per position (rule 4 incl. insertions) and CONE
                            pc=collections.Counter(m.pos for m in car)
                            if any(v>1 for v in pc.values()): continue
                            opts.append((A,mi,frozenset(D),frozenset(kept),frozenset(add)))
        return opts
    slots=[]
    for A,c in major_counts.items():
        o=options(A)
        slots.append(list(itertools.combinations_with_replacement(range(len(o)),c)))
        slots[-1]=[[o[i] for i in comb] for comb in slots[-1]]
    best=None; n=0
    positions=set(m.pos for m in muts)
    for combo in itertools.product(*slots):
        sel=[s for part in combo for s in part]
        T=collections.Counter()
        for (A,mi,D,kept,add) in sel:
            for m in kept|add: T[m]+=1
        ok=True
        for m in muts:
            if pcn(m.pos)==0 or cnt(m.pos,m.op)==0:
                if T[m]>0: ok=False;break
            else:
                if T[m]<1 or (strict and T[m]>cnt(m.pos,m.op)): ok=False;break
        if not ok: continue
        n+=1
        err=0
        for m in muts:
            s=scov(m.pos); c=cnt(m.pos,m.op)/s if s>0 else 0
            err+=abs(c-T[m])
        for p in positions:
            s=scov(p); c=cnt(p,"_")/s if s>0 else 0
            R=0
            for (A,mi,D,kept,add) in sel:
                if not gene.has_coverage(A,p): continue
                pres=[m for m in D if m.pos==p and not m.op.startswith("ins")]
                if pres: R+=1-(1 if pres[0] in kept else 0)
                else: R+=1-sum(1 for m in add if m.pos==p and not m.op.startswith("ins"))
            err+=abs(c-R)
        miss=sum(len(D)-len(kept) for (A,mi,D,kept,add) in sel)
        nadd=sum(len(add) for (A,mi,D,kept,add) in sel)
        novf=len({m for (A,mi,D,kept,add) in sel for m in add if gene.is_functional(m)})
        score=err+prof.minor_miss*miss+prof.minor_add*nadd+prof.minor_add/2*novf
        if best is None or score<best[0]-1e-12: best=(score,sel,nadd)
    return best,n

rng=random.Random(int(sys.argv[1])); bad=0; nt=0
sites=list(gene.mutations)
for it in range(int(sys.argv[2])):
    prof=Profile("t")
    struct,mc=rng.choice([(["1","1"],{"1":2}),(["1","1"],{"1":1,"2":1}),(["1","1"],{"1C":1,"3":1}),(["1"],{"2":1}),(["1","1","1"],{"1":2,"3":1}),(["1","4"],{"1":1,"4#3":1}),(["1","4"],{"1C":1,"4#1":1}),(["1","5"],{"1":1,"5":1})])
    cn=CNSolution(gene,0,struct)
    d=rng.choice([10,20])
    raw=collections.defaultdict(dict)
    ncop=len(struct)
    for (p,o) in sites:
        m=Mutation(p,o)
        base=sum(c for A,c in mc.items() if m in gene.alleles[A].func_muts)
        if rng.random()<.35: base+=rng.choice([1,1,2])
        if not cn.position_cn(p): continue
        n=max(0,round(d*base*rng.uniform(.7,1.3)))
        if n: raw[p][o]=[(60,60)]*n
    for p in set(p for p,o in sites):
        if not cn.position_cn(p): continue
        n=max(0,round(d*cn.position_cn(p)*rng.uniform(.3,1.0)))
        if n: raw[p]["_"]=[(60,60)]*n
    cov=Coverage(gene,prof,None,{p:dict(v) for p,v in raw.items()},None,{})
    major=MajorSolution(0,collections.Counter({SolvedAllele(gene,A):c for A,c in mc.items()}),cn,[])
    sols=estimate_minor(gene,cov,[major],"cbc")
    ref,n=rmin(gene,prof,raw,mc,cn)
    ref2,_=rmin(gene,prof,raw,mc,cn,strict=False)
    if n>8: nt+=1
    msg=None
    if ref is None:
        if sols: msg=("solutions but ref infeasible",)
    elif not sols: msg=("no solutions; ref",ref[0])
    else:
        s=sols[0].score; tb=prof.minor_add*60/1e6*max(1,ref[2]+3)
        if not (ref[0]-1e-4<=s<=ref[0]+1e-3+1e-4): msg=("score",s,ref[0],"relaxed",ref2[0])
    if msg: bad+=1; print(it,struct,mc,msg, [(a.minor,a.added,a.missing) for a in sols[0].solution] if sols else None, ref[1] if ref else None)
print("bad",bad,"nontrivial",nt)
