exec(open('proto.py').read().split("t=time.time()\nprint(\"profile reads\"")[0])
def vcf_record(m, gt):
    pos,op=m.pos,m.op
    if ">" in op: return (pos+1, op[0], op[2], gt)
    if op.startswith("ins"): return (pos+1, genome[pos], genome[pos]+op[3:], gt)
    if op.startswith("del"): return (pos, genome[pos-1], None, gt) if False else (pos, genome[pos-1]+op[3:], genome[pos-1], gt)
def write_vcf(path, recs):
    with open(path,"w") as f:
        f.write("##fileformat=VCFv4.2\n##contig=<ID=7,length=40000>\n##FORMAT=<ID=GT,Number=1,Type=String,Description=\"G\">\n#CHROM\tPOS\tID\tREF\tALT\tQUAL\tFILTER\tINFO\tFORMAT\tS1\n")
        for pos,ref,alt,gt in sorted(recs):
            f.write(f"7\t{pos}\t.\t{ref}\t{alt}\t.\tPASS\t.\tGT\t{gt}\n")
    pysam.tabix_index(path,preset="vcf",force=True)
from aldy.sam import Sample
from aldy.profile import Profile
for name in ["2.002","3.001","4.001","5.001"]:
    cn,ms=muts_of(name)
    for gt in ["0/1","1/1"]:
        write_vcf("x.vcf",[vcf_record(m,gt) for m in ms])
        try:
            res=genotype("g.yml","x.vcf.gz",None,output_file=None,genome="hg19")
            print(name,gt,[(s.get_minor_diplotype()) for v in res.values() for s in v])
            smp=Sample(gene,Profile("user_provided",cn_solution=["1","1"]),"x.vcf.gz")
            print("   cov",[(str(m),smp.coverage[m],smp.coverage.total(m.pos),smp.coverage.coverage(Mutation(m.pos,"_"))) for m in ms])
        except Exception as e:
            import traceback; traceback.print_exc()
