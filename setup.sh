#!/bin/bash
# Offline setup: make sure hypothesis is importable by the repository's interpreter.
HERE="$(cd "$(dirname "${BASH_SOURCE[0]}")" && pwd)"
cd "$HERE"
if ! PYTHONPATH="$HERE/.deps" /venv/bin/python -c "import hypothesis" 2>/dev/null; then
  /venv/bin/pip install --no-index --find-links /opt/veriftools/wheels --target "$HERE/.deps" hypothesis || exit 1
fi
PYTHONPATH="$HERE/.deps" /venv/bin/python -c "import hypothesis, ortools, pysam, yaml; print('setup ok: hypothesis', hypothesis.__version__)"
