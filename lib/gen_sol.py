"""G-SOL: solution objects built directly from a catalogue (DESIGN.md section 3)."""
import os
import random

from natsort import natsorted

_genes = {}


def shipped(name, build="hg19", tag=None):
    """Cached shipped (or toy) gene; a different `tag` gives a separately loaded object."""
    key = (name, build, tag)
    if key not in _genes:
        from aldy.gene import Gene
        from aldy.common import script_path

        if name == "toy":
            path = script_path("aldy.tests.resources/toy.yml")
        else:
            path = script_path(f"aldy.resources.genes/{name}.yml")
        _genes[key] = Gene(path, genome=build)
    return _genes[key]


def generated(spec, build, tag="gs"):
    from aldy.gene import Gene
    from lib import gen_db
    from lib.runner import scratch

    path = os.path.join(scratch(), f"{tag}.yml")
    gen_db.write(spec, path)
    return Gene(path, genome=build)


def make_solution(gene, picks, seed, display_format=False, with_added=True, with_missing=True, score=1.0, with_deletion=False):
    """picks: list of ints selecting majors (deletion allele excluded). Returns a MinorSolution."""
    from aldy.solutions import CNSolution, MajorSolution, MinorSolution, SolvedAllele
    from aldy.profile import Profile
    import collections

    rng = random.Random(seed)
    dele = gene.deletion_allele()
    # the whole-gene deletion allele can be a called copy too (user-supplied structure naming the deletion configuration)
    majors = natsorted(a for a in gene.alleles if with_deletion or gene.alleles[a].cn_config != dele)
    allm = sorted(gene.mutations)
    sol = []
    for i in picks:
        an = majors[i % len(majors)]
        a = gene.alleles[an]
        minors = natsorted(a.minors)
        mn = minors[rng.randrange(len(minors))]
        own = set(a.func_muts) | set(a.minors[mn].neutral_muts)
        added, missing = [], []
        if with_added and allm and rng.random() < 0.4:
            from aldy.gene import Mutation

            # (an insertion and another variant may share a position: the insertion sits behind that base)
            cand = [Mutation(*m) for m in allm if Mutation(*m) not in own and gene.has_coverage(an, m[0])
                    and not any(o.pos == m[0] and o.op.startswith("ins") == m[1].startswith("ins") for o in own)]
            rng.shuffle(cand)
            # directed: prefer a variant that shares its position with one the allele already has (insertion next to a substitution)
            same = [m for m in cand if any(o.pos == m.pos for o in own)]
            if same:
                cand = same[:1] + [m for m in cand if m is not same[0]]
            pos_used = set()
            for m in cand[:rng.randrange(1, 3)]:
                if (m.pos, m.op.startswith("ins")) not in pos_used:
                    added.append(m)
                    pos_used.add((m.pos, m.op.startswith("ins")))
        if with_missing and rng.random() < 0.3:
            sil = sorted(a.minors[mn].neutral_muts)
            if sil:
                missing = [sil[rng.randrange(len(sil))]]
        sol.append(SolvedAllele(gene, an, mn, added, missing))
    cn = CNSolution(gene, 0, [gene.alleles[s.major].cn_config for s in sol])
    major = MajorSolution(score, collections.Counter(SolvedAllele(gene, s.major) for s in sol), cn,
                          sorted({m for s in sol for m in s.added if gene.mutations.get(tuple(m), (None,))[0]}))
    prof = Profile("x")
    prof.display_format = display_format
    return MinorSolution(score, sol, major, prof)
