"""Running aldy's command-line entry point in-process (stderr/stdout captured, logging handler neutralised)."""
import contextlib
import io


def quiet_main_logging():
    import logbook
    import logbook.more
    import aldy.__main__ as M

    class Quiet(logbook.NullHandler):
        def __init__(self, *a, **k):
            super().__init__()

        def push_application(self):
            pass

    M.logbook.more.ColorizedStderrHandler = Quiet


def run_main(argv):
    """-> (exit_code|None, records) ; records = WARNING+ log messages emitted during the call."""
    import logbook
    import aldy.__main__ as M

    quiet_main_logging()
    handler = logbook.TestHandler(level="WARNING")
    code = None
    pushed = []
    orig_push = logbook.FileHandler.push_application

    def track(self):
        pushed.append(self)
        return orig_push(self)

    logbook.FileHandler.push_application = track
    try:
        with handler.applicationbound():
            try:
                with contextlib.redirect_stderr(io.StringIO()), contextlib.redirect_stdout(io.StringIO()):
                    try:
                        M.main(argv)
                    except SystemExit as e:
                        code = e.code if e.code is not None else 0
            finally:
                for h in reversed(pushed):
                    try:
                        h.pop_application()
                        h.close()
                    except Exception:  # noqa
                        pass
    finally:
        logbook.FileHandler.push_application = orig_push
    return code, [r.message for r in handler.records]
