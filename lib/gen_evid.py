"""G-EVID: evidence tables for the stage functions (DESIGN.md section 3)."""
import collections
import random


def carried(gene, major, minor=None):
    a = gene.alleles[major]
    ms = set(a.func_muts)
    if minor:
        ms |= set(a.minors[minor].neutral_muts)
    return ms


def planted_table(gene, copies, depth, sites, rng=None, noise=(1.0, 1.0), extra=None, qual=(60, 60), drop=0.0):
    """copies: list of (major name, set of carried variants).  sites: iterable of catalogue variants (pos, op) to write.
    For every site: depth x (#copies carrying it) variant observations; for every site position: depth x (#copies with gene
    coverage there that carry no non-insertion variant at that position) reference observations (major.py:142-144).
    extra: {variant: additional copies' worth} (novel / competing evidence).  Returns {pos: {op: [(mq, q), ...]}}."""
    rng = rng or random.Random(0)
    raw = collections.defaultdict(dict)
    extra = extra or {}
    sites = list(sites)

    def f():
        return rng.uniform(*noise) if noise != (1.0, 1.0) else 1.0

    for (p, o) in sites:
        if drop and rng.random() < drop:
            continue
        car = sum(1 for _, ms in copies if (p, o) in ms) + extra.get((p, o), 0)
        n = max(0, round(depth * car * f()))
        if n:
            raw[p][o] = [qual] * n
    for p in sorted({p for p, _ in sites}):
        e = 0
        for major, ms in copies:
            if not gene.has_coverage(major, p):
                continue
            if any(mp == p and not mo.startswith("ins") for mp, mo in ms):
                continue
            e += 1
        e2 = e - sum(v for (pp, oo), v in extra.items() if pp == p and not oo.startswith("ins"))
        n = max(0, round(depth * max(0, e2) * f()))
        if n:
            raw[p]["_"] = [qual] * n
    return {p: dict(v) for p, v in raw.items()}


def coverage_of(gene, profile, raw, sam=None):
    from aldy.coverage import Coverage

    return Coverage(gene, profile, sam, {p: {o: list(v) for o, v in ops.items()} for p, ops in raw.items()}, None, {})
