"""G-SIM: error-free read simulator writing BAM/SAM through pysam (DESIGN.md section 3).

The simulator plays a perfect aligner over a contig whose gene locus equals aldy's genome-oriented
reference (gene[i]); copies follow aldy's documented structure model: the first two copies are complete
haplotypes (gene + pseudogene per configuration vector), further copies contribute gene regions only.
"""
import os
import random

import pysam


class LazyGenome:
    """Contig sequence generated block-wise on demand (for loci tens of megabases into a chromosome): random bases,
    with the gene locus overwritten by aldy's genome-oriented reference."""

    BLOCK = 4096

    def __init__(self, L, seed, gene):
        self.L = L
        self.seed = seed
        self.gene = gene
        self.lo, self.hi = gene._lookup_range
        self._blocks = {}

    def __len__(self):
        return self.L

    def _block(self, b):
        if b not in self._blocks:
            r = random.Random(self.seed * 1000003 + b)
            self._blocks[b] = "".join(r.choice("ACGT") for _ in range(self.BLOCK))
        return self._blocks[b]

    def _base(self, p):
        if self.lo <= p < self.hi:
            c = self.gene[p]
            if c != "N":
                return c
        return self._block(p // self.BLOCK)[p % self.BLOCK]

    def __getitem__(self, k):
        if isinstance(k, slice):
            a, b, _ = k.indices(self.L)
            return "".join(self._base(p) for p in range(a, b))
        return self._base(k)


class Sim:
    def __init__(self, gene, seed=0, neutral_len=1000, pad=3000):
        self.gene = gene
        r = random.Random(seed)
        wide = gene.get_wide_region()
        self.L = wide.end + pad
        if self.L > 2_000_000:
            self.genome = LazyGenome(self.L, seed, gene)
        else:
            gen = [r.choice("ACGT") for _ in range(self.L)]
            lo, hi = gene._lookup_range
            for i in range(lo, hi):
                c = gene[i]
                if c != "N":
                    gen[i] = c
            self.genome = "".join(gen)
        from aldy.common import GRange

        self.cnr = GRange(gene.chr, wide.end + 800, wide.end + 800 + neutral_len)
        self.chrom = gene.chr

    # ------------------------------------------------------------------ writing
    def header(self, extra_sq=()):
        sq = [{"SN": self.chrom, "LN": self.L}] + [{"SN": n, "LN": ln} for n, ln in extra_sq]
        return {"HD": {"VN": "1.0", "SO": "coordinate"}, "SQ": sq}

    def write(self, path, reads, fmt="bam", sort=True, mq=60, qual=40, index=True):
        """reads: list of dicts/tuples (name, pos, cigartuples, seq[, flag, mq, quals])."""
        hdr = self.header()
        mode = "wb" if fmt == "bam" else "w"
        rs = sorted(reads, key=lambda r: r[1]) if sort else list(reads)
        with pysam.AlignmentFile(path, mode, header=hdr) as f:
            for r in rs:
                name, pos, cig, s = r[:4]
                a = pysam.AlignedSegment(f.header)
                a.query_name = name
                a.reference_id = 0
                a.reference_start = pos
                a.flag = r[4] if len(r) > 4 else 0
                a.mapping_quality = r[5] if len(r) > 5 else mq
                a.cigartuples = cig
                a.query_sequence = s
                a.query_qualities = pysam.qualitystring_to_array(chr(33 + qual) * len(s)) if len(r) <= 6 or r[6] is None else r[6]
                f.write(a)
        if fmt == "bam" and index:
            pysam.index(path)
        return path

    # ------------------------------------------------------------------ tiling
    def tile(self, tag, s0, s1, muts, rl, step, phase0=0, normalize=False):
        """Reads of length rl starting every `step` bases over the segment [s0, s1), carrying `muts`
        ({pos: op} in genome coordinates).  Depth per base = rl/step."""
        ev = dict(muts)
        out = []
        n = 0
        G = self.genome
        starts = range(s0 - rl + step + phase0, s1, step)
        if getattr(self, "mirror", False) and self.gene.strand < 0:
            # mirror image of the + strand tiling (reads laid out from the RefSeq 5' end): the two builds of a database that maps the
            # gene to opposite strands then get the same reads in RefSeq terms, hence the same phase links between sites
            starts = [s0 + s1 - st_ - rl for st_ in starts][::-1]
        for st_ in starts:
            a = max(st_, s0)
            b = min(st_ + rl, s1)
            # a read never shows half of a multi-nucleotide substitution: start after it
            for mp, mop in ev.items():
                if ">" in mop:
                    k = len(mop.split(">")[0])
                    if k > 1 and mp < a < mp + k:
                        a = mp + k
                    if k > 1 and getattr(self, "mirror", False) and mp < b < mp + k:
                        b = mp  # mirrored layouts: a read does not END inside a multi-nucleotide substitution either

            if b <= a:
                continue
            cig = []
            s = []

            def add(op, ln):
                if cig and cig[-1][0] == op:
                    cig[-1] = (op, cig[-1][1] + ln)
                else:
                    cig.append((op, ln))

            p = a
            mnp_left = None
            while p < b:
                op = ev.get(p)
                if mnp_left:
                    # inside a multi-nucleotide substitution started earlier
                    l, r, base = mnp_left
                    k = p - base
                    if k < len(l):
                        add(0, 1)
                        s.append(r[k] if l[k] != "." else G[p])
                        p += 1
                        continue
                    mnp_left = None
                if op and op.startswith("ins"):
                    add(0, 1)
                    s.append(G[p])
                    p += 1
                    if p < b:
                        add(1, len(op) - 3)
                        s.append(op[3:])
                elif op and op.startswith("del"):
                    ln = len(op) - 3
                    if p > a and p + ln < b:
                        add(2, ln)
                        p += ln
                    elif p == a:
                        a = p = p + ln
                    else:
                        b = p
                        break
                elif op and ">" in op:
                    l, r = op.split(">")
                    if len(l) == 1:
                        add(0, 1)
                        s.append(r)
                        p += 1
                    else:
                        if p + len(l) > b:  # do not emit half an MNP
                            b = p
                            break
                        mnp_left = (l, r, p)
                else:
                    add(0, 1)
                    s.append(G[p])
                    p += 1
            if not cig or cig[-1][0] in (1, 2):
                continue
            out.append((f"{tag}_{n}", a, cig, "".join(s)))
            n += 1
        return out

    def copy_segments(self, conf, ci):
        """Segments [(gene_index, start, end, k)] contributed by copy number `ci` of configuration `conf`."""
        gene = self.gene
        cn = gene.cn_configs[conf].cn
        segs_all = []
        for gi, regs in enumerate(gene.regions):
            items = sorted(regs.items(), key=lambda x: x[1].start)
            segs = []
            for r, rg in items:
                k = cn[gi][r]
                if gi > 0 and ci >= 2:
                    k -= 1
                if rg.end <= rg.start:
                    continue
                if segs and segs[-1][3] == k and segs[-1][2] == rg.start:
                    segs[-1][2] = rg.end
                else:
                    segs.append([gi, rg.start, rg.end, k])
            segs_all += segs
        return segs_all

    def sample_reads(self, copies, rl=100, step=5, neutral_k=2, gene_k=1, skip=()):
        """copies: list of (configuration name, iterable of Mutation-like (pos, op)).  The caller orders them
        so that the two complete haplotypes come first."""
        reads = []
        for ci, (conf, muts) in enumerate(copies):
            for gi, s0, s1, k in self.copy_segments(conf, ci):
                if ("gene" in skip and gi == 0) or ("pseudo" in skip and gi > 0):
                    continue
                for c in range(k * gene_k):
                    m = {x[0]: x[1] for x in muts if s0 <= x[0] < s1} if gi == 0 else {}
                    reads += self.tile(f"c{ci}g{gi}s{s0}k{c}", s0, s1, m, rl, step)
        if "neutral" not in skip:
            for c in range(neutral_k):
                reads += self.tile(f"n{c}", self.cnr.start - 300, self.cnr.end + 300, {}, rl, step)
        return reads

    def sample(self, path, copies, rl=100, step=5, **kw):
        fmt = kw.pop("fmt", "bam")
        reads = self.sample_reads(copies, rl, step, **kw)
        return self.write(path, reads, fmt=fmt)


def allele_copy(gene, minor_name):
    """(configuration, set of carried variants, major name) of a catalogued minor allele, read from the
    loaded catalogue (C08 separately shows that the loaded variants denote the database's haplotype)."""
    a, m = gene.get_allele(minor_name)
    ms = set(a.func_muts) | set(m.neutral_muts)
    cn0 = gene.cn_configs[a.cn_config].cn[0]
    if any(v == 0 for v in cn0.values()):
        # a fusion / partial-deletion allele: a haplotype of it has the gene's sequence only in the regions its configuration retains,
        # so a variant the database lists in a lost region (shipped CYP2D6 *61.001, *4.013) is not part of the simulated haplotype
        keep = [rg for r, rg in gene.regions[0].items() if cn0.get(r, 0) > 0]
        ms = {x for x in ms if any(rg.start <= x[0] < rg.end for rg in keep)}
    return a.cn_config, ms, a.name


def order_copies(copies):
    """Complete haplotypes (non-default configurations first) before extra default copies."""
    return sorted(copies, key=lambda c: c[0] == "1")


def write_multi(path, sims_reads, mq=60, qual=40):
    """One coordinate-sorted, indexed BAM holding the reads of several simulators (one contig each)."""
    names = []
    for sim, _ in sims_reads:
        if sim.chrom not in [n for n, _ in names]:
            names.append((sim.chrom, sim.L))
        else:
            i = [n for n, _ in names].index(sim.chrom)
            names[i] = (sim.chrom, max(names[i][1], sim.L))
    hdr = {"HD": {"VN": "1.0", "SO": "coordinate"}, "SQ": [{"SN": n, "LN": ln} for n, ln in names]}
    tid = {n: i for i, (n, _) in enumerate(names)}
    allr = []
    for sim, reads in sims_reads:
        for r in reads:
            allr.append((tid[sim.chrom], r))
    allr.sort(key=lambda x: (x[0], x[1][1]))
    with pysam.AlignmentFile(path, "wb", header=hdr) as f:
        for t, r in allr:
            name, pos, cig, s = r[:4]
            a = pysam.AlignedSegment(f.header)
            a.query_name = name
            a.reference_id = t
            a.reference_start = pos
            a.flag = 0
            a.mapping_quality = mq
            a.cigartuples = cig
            a.query_sequence = s
            a.query_qualities = pysam.qualitystring_to_array(chr(33 + qual) * len(s))
            f.write(a)
    pysam.index(path)
    return path
