"""Genome-coordinate variants of a planted allele derived from the database spec's RefSeq-level truth (gen_db meta),
WITHOUT going through aldy.gene.Gene: an independent re-derivation of the strand / coordinate conversion, so that the
end-to-end checks (C01, C13 alignment layer) are sensitive to conversion defects instead of inheriting them."""
from lib.refseq import revcomp


def genome_variant(meta, build, strand, site):
    """site = (pos1, op, func, kind, region) in RefSeq terms -> (genome pos0, op) in aldy's loaded convention:
    substitution / deletion at the leftmost genome base, insertion at the genome base LEFT of the inserted bases,
    alleles spelled on the genome's forward strand."""
    pos1, op = site[0], site[1]
    r2c = meta["r2c"][build]
    a = pos1 - 1
    if ">" in op:
        l, r = op.split(">")
        k = len(l)
        if strand == "+":
            return r2c[a], op
        return r2c[a + k - 1], f"{revcomp(l)}>{revcomp(r)}"
    if op.startswith("ins"):
        y = op[3:]
        if strand == "+":
            return r2c[a], op
        return r2c[a + 1], "ins" + revcomp(y)
    if "ins" in op[3:]:
        x, y = op[3:].split("ins")
        if strand == "+":
            return r2c[a], op
        return r2c[a + len(x) - 1], f"del{revcomp(x)}ins{revcomp(y)}"
    x = op[3:]
    if strand == "+":
        return r2c[a], op
    return r2c[a + len(x) - 1], "del" + revcomp(x)


def allele_variants(spec, meta, build, minor_name):
    """Set of (gpos, gop) carried by database allele `minor_name` ('k.00m', or 'F#k.00m' for a partial of left fusion F)."""
    strand = spec["builds"][build]["strand"]
    order = meta["order"]
    rank = {r: i for i, r in enumerate(order)}
    keep = None
    name = minor_name
    if "#" in minor_name:
        f, name = minor_name.split("#", 1)
        # the bare left fusion whose major number is f
        brk = None
        for nm, t in meta["truth"].items():
            if nm.split(".")[0] == f and t["sv"] and t["sv"][0] == "left":
                brk = t["sv"][1]
        if brk is None:
            return None
        keep = {r for r in order if rank[r] >= rank[brk]}
    t = meta["truth"].get(name)
    if t is None:
        return None
    out = set()
    for i in t["sites"]:
        site = meta["sites"][i]
        if keep is not None and site[4] not in keep:
            continue
        out.add(genome_variant(meta, build, strand, site))
    return out
