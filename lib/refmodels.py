"""Reference models (DESIGN.md section 4): exhaustive evaluators written from the documented objectives.
None of them calls aldy's model-building code; they only read the loaded catalogue (gene.cn_configs,
gene.alleles, gene.regions) and plain parameter values.
"""
import collections
import itertools


# =============================================================================================== R-CN
def rcn(gene, profile, max_cn, cov, fusion_support=None, configs=None):
    """Enumerate count vectors of the documented structure model.

    cov: {region: (gene_depth, pseudo_depth)} for the copy-number regions.
    Returns (best: {structure tuple: (score, explanation)}, all: {structure: [(score, explanation), ...]}).
    explanation = (complete-copy counts per configuration, extra default copies, free pseudogene slots).
    """
    from aldy.gene import CNConfigType

    cfgs = configs if configs is not None else gene.cn_configs
    U = list(gene.unique_regions)
    nU = len(U)
    dele = gene.deletion_allele()
    if dele is not None and dele not in cfgs:
        dele_in = None
    else:
        dele_in = dele
    has_p = len(gene.regions) > 1
    names = [n for n in cfgs
             if not fusion_support or n == "1" or (dele and n == dele)
             or (n in fusion_support and fusion_support[n] >= 1 / (2 * max_cn))]
    P = 10.0 / nU * 0.75
    pen = {}
    for n in names:
        k = cfgs[n].kind
        # the penalty table is keyed by gene.cn_configs (cn.py:255), not by the candidate list
        kk = gene.cn_configs[n].kind if n in gene.cn_configs else k
        pen[n] = P * (1 + (profile.cn_fusion_right if kk == CNConfigType.RIGHT_FUSION
                           else profile.cn_fusion_left if kk == CNConfigType.LEFT_FUSION else 0))
    pen["PSEUDO"] = P
    default = [n for n in names if cfgs[n].kind == CNConfigType.DEFAULT]
    res = {}
    use_pseudo_slots = has_p and dele_in is not None and dele_in in names
    pairs = []
    for i in range(len(names)):
        for j in range(i, len(names)):
            c = [0] * len(names)
            c[i] += 1
            c[j] += 1
            pairs.append(tuple(c))
    for comp in pairs:
        compd = dict(zip(names, comp))
        for extra in range(0, max_cn):
            if extra and not default:
                break
            for ps in range(0, (max_cn + 1) if use_pseudo_slots else 1):
                if dele_in and compd.get(dele_in, 0) == 2 and (extra or ps or any(v for k, v in compd.items() if k != dele_in)):
                    continue
                G = {r: 0 for r in U}
                Pp = {r: 0 for r in U}
                pars = 0.0
                for n, c in compd.items():
                    cn = cfgs[n].cn
                    for r in U:
                        G[r] += c * cn[0].get(r, 0)
                        if len(cn) > 1:
                            Pp[r] += c * cn[1].get(r, 0)
                    pars += c * pen[n]
                if extra:
                    n = default[0]
                    cn = cfgs[n].cn
                    for r in U:
                        G[r] += extra * cn[0].get(r, 0)
                        if len(cn) > 1:
                            Pp[r] += extra * (cn[1].get(r, 0) - 1)
                    pars += extra * pen[n]
                if ps:
                    cn = cfgs[dele_in].cn
                    for r in U:
                        Pp[r] += ps * cn[1].get(r, 0)
                    pars += ps * pen["PSEUDO"]
                diff = 0.0
                fit = 0.0
                ok = True
                for r in U:
                    g, p = cov[r]
                    e = ((g - p) - (G[r] - Pp[r])) / (max(g, p) + 1)
                    eg = g - G[r]
                    if abs(e) > profile.cn_max + 1e-9 or abs(eg) > profile.cn_max + 1e-9:
                        ok = False
                    diff += abs(e) * (profile.cn_pce_penalty if r == "pce" else 1)
                    fit += abs(eg)
                if not ok:
                    continue
                score = profile.cn_diff / nU * diff + profile.cn_fit / nU * fit + profile.cn_parsimony * pars
                st = []
                for n, c in compd.items():
                    if n != dele_in:
                        st += [n] * c
                if extra:
                    st += [default[0]] * extra
                res.setdefault(tuple(sorted(st)), []).append((score, (comp, extra, ps)))
    best = {k: min(v) for k, v in res.items()}
    return best, res, names


# =============================================================================================== filters
def quality_filter(raw, prof):
    return {p: {o: [x for x in v if x[1] >= prof.min_quality and x[0] >= prof.min_mapq] for o, v in ops.items()}
            for p, ops in raw.items()}


def _tot(t, p):
    return sum(len(v) for o, v in t.get(p, {}).items() if not o.startswith("ins"))


def filtered_table(gene, prof, raw, cnsol, keep=None, indels=None):
    """Independent re-computation of the two-step evidence filter (quality filter, then the
    min_coverage / threshold test against cn_max and against copies-at-position + 0.5).
    keep(pos, op) -> False drops a non-reference entry up front (minor stage region rule).
    indels: optional re-alignment table {(pos, op): (reads not supporting, reads supporting)} as the BAM route builds it: insertions
    then come from the table only, a listed indel is counted by its supporting reads and scaled by supporting + not supporting.
    With a table the surviving entries are returned as third value."""
    t1 = {p: {o: v for o, v in ops.items() if v and not (indels and o.startswith("ins"))} for p, ops in quality_filter(raw, prof).items()}
    I = {k: v for k, v in (indels or {}).items() if v[1]}

    def pcn(p):
        r = gene.region_at(p)
        return cnsol.region_cn[r[0]][r[1]] if r else 0

    def passes(p, o, n, tot):
        ok = n >= max(prof.min_coverage, tot * prof.threshold / prof.cn_max)
        if o != "_":
            ok = ok and n >= max(prof.min_coverage, tot * prof.threshold / (pcn(p) + 0.5))
        return ok

    t2 = {}
    for p, ops in t1.items():
        t2[p] = {}
        for o, v in ops.items():
            if o != "_" and keep is not None and not keep(p, o):
                continue
            n, tot = (I[p, o][1], sum(I[p, o])) if (p, o) in I else (len(v), _tot(t1, p))
            if passes(p, o, n, tot):
                t2[p][o] = v
    if indels is None:
        return t2, pcn
    I2 = {k: v for k, v in I.items() if (keep is None or keep(*k)) and passes(k[0], k[1], v[1], sum(v))}
    return t2, pcn, I2


# =============================================================================================== R-MAJ
def _view(t2, I2):
    """Filtered table with the surviving re-alignment entries materialised as lists of their supporting-read count (for counting)."""
    if not I2:
        return t2
    v = {p: dict(ops) for p, ops in t2.items()}
    for (p, o), (off, on) in I2.items():
        v.setdefault(p, {})[o] = [(60, 60)] * on
    return v


def rmaj(gene, prof, raw, cnsol, limit=200000, indels=None):
    """-> (candidates, {(alleles tuple, novel tuple): score}) or (None, {}) when some configuration of the
    structure has no candidate allele; raises OverflowError beyond `limit` multisets."""
    from aldy.gene import Mutation

    if indels is None:
        t2, pcn = filtered_table(gene, prof, raw, cnsol)
        I2 = {}
    else:
        t2, pcn, I2 = filtered_table(gene, prof, raw, cnsol, indels=indels)

    def cnt(p, o):
        if (p, o) in I2:
            return I2[p, o][1]
        return len(t2.get(p, {}).get(o, []))

    cands = {an: a for an, a in gene.alleles.items()
             if a.cn_config in cnsol.solution and all(cnt(m.pos, m.op) > 0 for m in a.func_muts)}
    if set(cnsol.solution) - set(a.cn_config for a in cands.values()):
        return None, {}, _view(t2, I2)
    F = [Mutation(*m) for m in gene.mutations if gene.is_functional(m) and cnt(m[0], m[1]) > 0]

    def single(p, o=None):
        c = pcn(p)
        tot = sum(I2[p, o]) if (p, o) in I2 else _tot(t2, p)
        return 0 if c == 0 else max(1, tot) / c

    per = []
    size = 1
    for cf, n in sorted(cnsol.solution.items()):
        opts = list(itertools.combinations_with_replacement(sorted(a for a in cands if cands[a].cn_config == cf), n))
        size *= max(1, len(opts))
        if size > limit:
            raise OverflowError(size)
        per.append(opts)
    out = {}
    for combo in itertools.product(*per):
        sel = [a for part in combo for a in part]
        novel = [m for m in F if not any(m in cands[a].func_muts for a in sel)]
        bypos = collections.Counter(m.pos for m in novel if not m.op.startswith("ins"))
        if any(v > 1 for v in bypos.values()):
            continue
        err = 0.0
        for m in F:
            s = single(m.pos, m.op)
            c = cnt(m.pos, m.op) / s if s else 0.0
            err += abs(c - sum(1 for a in sel if m in cands[a].func_muts) - (1 if m in novel else 0))
        for p in set(m.pos for m in F):
            s = single(p)
            c = cnt(p, "_") / s if s else 0.0
            e = sum(1 for a in sel if gene.has_coverage(a, p)
                    and not any(x.pos == p and not x.op.startswith("ins") for x in cands[a].func_muts))
            err += abs(c - e)
        score = err + (prof.major_novel if novel else 0) + 0.1 * len(novel)
        out[(tuple(sorted(sel)), tuple(sorted(novel)))] = score
    return cands, out, _view(t2, I2)


# =============================================================================================== R-MIN
def minor_keep_rule(gene, mutations):
    from aldy.gene import Mutation

    def keep(p, o):
        if o == "-":
            return True
        r = gene.region_at(p)
        return Mutation(p, o) in mutations or bool(r and r[1][0] == "e") or bool(r and r[1] in ["utr3", "utr5", "up"])

    return keep


def rmin(gene, prof, raw, major_counts, cnsol, extra_mutations=(), phases=None, limit=400000, filter_cn=None):
    """Exhaustive evaluation of the minor-stage objective for ONE major solution.

    major_counts: {major name: copies}; extra_mutations: novel core variants of the major solution (its `added`).
    phases: {fragment: {pos: label}} or None.  Returns (best (score, assignment, n_added), n_feasible, table).
    An assignment is a list of (major, minor, definition, kept, added) per called copy.
    """
    from aldy.gene import Mutation

    majors = list(major_counts)
    mutations = set(Mutation(*m) for m in extra_mutations)
    for A in majors:
        mutations |= set(gene.alleles[A].func_muts)
        for mi in gene.alleles[A].minors.values():
            mutations |= set(mi.neutral_muts)
    mutations |= set(gene.random_mutations)
    # filter_cn: the structure whose copy numbers the evidence filter uses when it is not the refined candidate's own (estimate_minor
    # filters once, with the LAST candidate's structure, for all candidates: recorded finding D9)
    t2, pcn = filtered_table(gene, prof, raw, filter_cn or cnsol, keep=minor_keep_rule(gene, mutations))
    if filter_cn is not None:
        def pcn(p):  # noqa  (the model itself uses the candidate's own copy numbers)
            r = gene.region_at(p)
            return cnsol.region_cn[r[0]][r[1]] if r else 0

    def cnt(p, o):
        return len(t2.get(p, {}).get(o, []))

    def scov(p):
        c = pcn(p)
        return 0 if c == 0 else max(1, _tot(t2, p)) / c

    muts = sorted(mutations)
    positions = sorted({m.pos for m in muts})
    bypos = {p: [m for m in muts if m.pos == p] for p in positions}

    def options(A):
        opts = []
        for mi, M in gene.alleles[A].minors.items():
            D = set(gene.alleles[A].func_muts) | set(M.neutral_muts)
            forced = [m for m in D if gene.is_functional(m)]
            if any(not gene.has_coverage(A, m.pos) for m in forced):
                continue
            free = [m for m in D if not gene.is_functional(m) and gene.has_coverage(A, m.pos)]
            addable = [m for m in muts if m not in D and gene.has_coverage(A, m.pos)]
            for ks in range(len(free) + 1):
                for keep in itertools.combinations(free, ks):
                    kept = set(forced) | set(keep)
                    for as_ in range(len(addable) + 1):
                        for add in itertools.combinations(addable, as_):
                            car = kept | set(add)
                            pc = collections.Counter(m.pos for m in car)
                            if any(v > 1 for v in pc.values()):
                                continue
                            opts.append((A, mi, frozenset(D), frozenset(kept), frozenset(add)))
        return opts

    # number of keep/new variables an allele has at a position (needed for rule 6), also for unused alleles
    def nvars(A, D, p):
        if not gene.has_coverage(A, p):
            return 0  # an allele without a gene copy at p can show neither a variant nor the reference there
        return sum(1 for m in bypos[p] if m in D or gene.has_coverage(A, m.pos))

    max_mut = {p: 0 for p in positions}
    for A in majors:
        for mi, M in gene.alleles[A].minors.items():
            D = set(gene.alleles[A].func_muts) | set(M.neutral_muts)
            for p in positions:
                max_mut[p] = max(max_mut[p], nvars(A, D, p))

    slots = []
    size = 1
    for A, c in major_counts.items():
        o = options(A)
        combs = list(itertools.combinations_with_replacement(range(len(o)), c))
        size *= max(1, len(combs))
        if size > limit:
            raise OverflowError(size)
        slots.append([[o[i] for i in comb] for comb in combs])

    # phase modes
    modes = collections.Counter()
    if phases:
        mpos = set(positions)
        for rv in phases.values():
            c = tuple(sorted((k, v) for k, v in rv.items() if k in mpos))
            if len(c) > 1:
                modes[c] += 1

    best = None
    n = 0
    for combo in itertools.product(*slots):
        sel = [s for part in combo for s in part]
        T = collections.Counter()
        for (A, mi, D, kept, add) in sel:
            for m in kept | add:
                T[m] += 1
        ok = True
        for m in muts:
            if pcn(m.pos) == 0 or cnt(m.pos, m.op) == 0:
                if T[m] > 0:
                    ok = False
                    break
            elif T[m] < 1 or T[m] > cnt(m.pos, m.op):
                ok = False
                break
        if not ok:
            continue
        # rule 6
        for p in positions:
            expr = 0
            for (A, mi, D, kept, add) in sel:
                expr += nvars(A, D, p) - sum(1 for m in (kept | add) if m.pos == p)
            bound = 0 if pcn(p) == 0 else max(pcn(p), cnt(p, "_"), max_mut[p])
            if expr > bound:
                ok = False
                break
        if not ok:
            continue
        n += 1
        err = 0.0
        for m in muts:
            s = scov(m.pos)
            c = cnt(m.pos, m.op) / s if s > 0 else 0
            err += abs(c - T[m])
        for p in positions:
            s = scov(p)
            c = cnt(p, "_") / s if s > 0 else 0
            R = 0
            for (A, mi, D, kept, add) in sel:
                if not gene.has_coverage(A, p):
                    continue
                pres = [m for m in D if m.pos == p and not m.op.startswith("ins")]
                if pres:
                    R += 1 - (1 if pres[0] in kept else 0)
                else:
                    R += 1 - sum(1 for m in add if m.pos == p and not m.op.startswith("ins"))
            err += abs(c - R)
        miss = sum(len(D) - len(kept) for (A, mi, D, kept, add) in sel)
        nadd = sum(len(add) for (A, mi, D, kept, add) in sel)
        novf = len({m for (A, mi, D, kept, add) in sel for m in add
                    if gene.is_functional(m) and m not in gene.alleles[A].func_muts})
        score = err + prof.minor_miss * miss + prof.minor_add * nadd + prof.minor_add / 2 * novf
        if modes:
            ph = 0.0
            for mode, c in modes.items():
                r = dict(mode)
                costs = []
                for (A, mi, D, kept, add) in sel:
                    rel = [m for m in muts if m.pos in r and gene.has_coverage(A, m.pos)]
                    if len(rel) <= 1:
                        continue
                    e = 0
                    for m in rel:
                        x = 1 if (m in kept or m in add) else 0
                        e += (1 - x) if m.op == r[m.pos] else x
                    costs.append(e)
                if costs:
                    ph += c * min(costs)
            score += prof.minor_phase * ph
        if best is None or score < best[0] - 1e-12:
            best = (score, sel, nadd)
    return best, n, t2
