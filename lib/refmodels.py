"""Reference models (DESIGN.md section 4): exhaustive evaluators written from the documented objectives.
None of them calls aldy's model-building code; they only read the loaded catalogue (gene.cn_configs,
gene.alleles, gene.regions) and plain parameter values.
"""
import collections
import itertools


# =============================================================================================== R-CN
def rcn(gene, profile, max_cn, cov, fusion_support=None, configs=None):
    """Enumerate count vectors of the documented structure model.

    cov: {region: (gene_depth, pseudo_depth)} for the copy-number regions.
    Returns (best: {structure tuple: (score, explanation)}, all: {structure: [(score, explanation), ...]}).
    explanation = (complete-copy counts per configuration, extra default copies, free pseudogene slots).
    """
    from aldy.gene import CNConfigType

    cfgs = configs if configs is not None else gene.cn_configs
    U = list(gene.unique_regions)
    nU = len(U)
    dele = gene.deletion_allele()
    if dele is not None and dele not in cfgs:
        dele_in = None
    else:
        dele_in = dele
    has_p = len(gene.regions) > 1
    names = [n for n in cfgs
             if not fusion_support or n == "1" or (dele and n == dele)
             or (n in fusion_support and fusion_support[n] >= 1 / (2 * max_cn))]
    P = 10.0 / nU * 0.75
    pen = {}
    for n in names:
        k = cfgs[n].kind
        # the penalty table is keyed by gene.cn_configs (cn.py:255), not by the candidate list
        kk = gene.cn_configs[n].kind if n in gene.cn_configs else k
        pen[n] = P * (1 + (profile.cn_fusion_right if kk == CNConfigType.RIGHT_FUSION
                           else profile.cn_fusion_left if kk == CNConfigType.LEFT_FUSION else 0))
    pen["PSEUDO"] = P
    default = [n for n in names if cfgs[n].kind == CNConfigType.DEFAULT]
    res = {}
    use_pseudo_slots = has_p and dele_in is not None and dele_in in names
    pairs = []
    for i in range(len(names)):
        for j in range(i, len(names)):
            c = [0] * len(names)
            c[i] += 1
            c[j] += 1
            pairs.append(tuple(c))
    for comp in pairs:
        compd = dict(zip(names, comp))
        for extra in range(0, max_cn):
            if extra and not default:
                break
            for ps in range(0, (max_cn + 1) if use_pseudo_slots else 1):
                if dele_in and compd.get(dele_in, 0) == 2 and (extra or ps or any(v for k, v in compd.items() if k != dele_in)):
                    continue
                G = {r: 0 for r in U}
                Pp = {r: 0 for r in U}
                pars = 0.0
                for n, c in compd.items():
                    cn = cfgs[n].cn
                    for r in U:
                        G[r] += c * cn[0].get(r, 0)
                        if len(cn) > 1:
                            Pp[r] += c * cn[1].get(r, 0)
                    pars += c * pen[n]
                if extra:
                    n = default[0]
                    cn = cfgs[n].cn
                    for r in U:
                        G[r] += extra * cn[0].get(r, 0)
                        if len(cn) > 1:
                            Pp[r] += extra * (cn[1].get(r, 0) - 1)
                    pars += extra * pen[n]
                if ps:
                    cn = cfgs[dele_in].cn
                    for r in U:
                        Pp[r] += ps * cn[1].get(r, 0)
                    pars += ps * pen["PSEUDO"]
                diff = 0.0
                fit = 0.0
                ok = True
                for r in U:
                    g, p = cov[r]
                    e = ((g - p) - (G[r] - Pp[r])) / (max(g, p) + 1)
                    eg = g - G[r]
                    if abs(e) > profile.cn_max + 1e-9 or abs(eg) > profile.cn_max + 1e-9:
                        ok = False
                    diff += abs(e) * (profile.cn_pce_penalty if r == "pce" else 1)
                    fit += abs(eg)
                if not ok:
                    continue
                score = profile.cn_diff / nU * diff + profile.cn_fit / nU * fit + profile.cn_parsimony * pars
                st = []
                for n, c in compd.items():
                    if n != dele_in:
                        st += [n] * c
                if extra:
                    st += [default[0]] * extra
                res.setdefault(tuple(sorted(st)), []).append((score, (comp, extra, ps)))
    best = {k: min(v) for k, v in res.items()}
    return best, res, names


# =============================================================================================== filters
def quality_filter(raw, prof):
    return {p: {o: [x for x in v if x[1] >= prof.min_quality and x[0] >= prof.min_mapq] for o, v in ops.items()}
            for p, ops in raw.items()}


def _tot(t, p):
    return sum(len(v) for o, v in t.get(p, {}).items() if not o.startswith("ins"))


def filtered_table(gene, prof, raw, cnsol, keep=None):
    """Independent re-computation of the two-step evidence filter (quality filter, then the
    min_coverage / threshold test against cn_max and against copies-at-position + 0.5).
    keep(pos, op) -> False drops a non-reference entry up front (minor stage region rule)."""
    t1 = {p: {o: v for o, v in ops.items() if v} for p, ops in quality_filter(raw, prof).items()}

    def pcn(p):
        r = gene.region_at(p)
        return cnsol.region_cn[r[0]][r[1]] if r else 0

    t2 = {}
    for p, ops in t1.items():
        t2[p] = {}
        for o, v in ops.items():
            if o != "_" and keep is not None and not keep(p, o):
                continue
            ok = len(v) >= max(prof.min_coverage, _tot(t1, p) * prof.threshold / prof.cn_max)
            if o != "_":
                ok = ok and len(v) >= max(prof.min_coverage, _tot(t1, p) * prof.threshold / (pcn(p) + 0.5))
            if ok:
                t2[p][o] = v
    return t2, pcn


# =============================================================================================== R-MAJ
def rmaj(gene, prof, raw, cnsol, limit=200000):
    """-> (candidates, {(alleles tuple, novel tuple): score}) or (None, {}) when some configuration of the
    structure has no candidate allele; raises OverflowError beyond `limit` multisets."""
    from aldy.gene import Mutation

    t2, pcn = filtered_table(gene, prof, raw, cnsol)

    def cnt(p, o):
        return len(t2.get(p, {}).get(o, []))

    cands = {an: a for an, a in gene.alleles.items()
             if a.cn_config in cnsol.solution and all(cnt(m.pos, m.op) > 0 for m in a.func_muts)}
    if set(cnsol.solution) - set(a.cn_config for a in cands.values()):
        return None, {}, t2
    F = [Mutation(*m) for m in gene.mutations if gene.is_functional(m) and cnt(m[0], m[1]) > 0]

    def single(p):
        c = pcn(p)
        return 0 if c == 0 else max(1, _tot(t2, p)) / c

    per = []
    size = 1
    for cf, n in sorted(cnsol.solution.items()):
        opts = list(itertools.combinations_with_replacement(sorted(a for a in cands if cands[a].cn_config == cf), n))
        size *= max(1, len(opts))
        if size > limit:
            raise OverflowError(size)
        per.append(opts)
    out = {}
    for combo in itertools.product(*per):
        sel = [a for part in combo for a in part]
        novel = [m for m in F if not any(m in cands[a].func_muts for a in sel)]
        bypos = collections.Counter(m.pos for m in novel if not m.op.startswith("ins"))
        if any(v > 1 for v in bypos.values()):
            continue
        err = 0.0
        for m in F:
            s = single(m.pos)
            c = cnt(m.pos, m.op) / s if s else 0.0
            err += abs(c - sum(1 for a in sel if m in cands[a].func_muts) - (1 if m in novel else 0))
        for p in set(m.pos for m in F):
            s = single(p)
            c = cnt(p, "_") / s if s else 0.0
            e = sum(1 for a in sel if gene.has_coverage(a, p)
                    and not any(x.pos == p and not x.op.startswith("ins") for x in cands[a].func_muts))
            err += abs(c - e)
        score = err + (prof.major_novel if novel else 0) + 0.1 * len(novel)
        out[(tuple(sorted(sel)), tuple(sorted(novel)))] = score
    return cands, out, t2
