"""Auditing wrapper around aldy.lpinterface.CBC (C05 part iii): every model aldy builds while the block runs is
cross-checked against OR-Tools' SCIP and HiGHS back ends on the exported MPModelProto, every yielded solution is
re-verified against the exported constraints, and the exhausted model is re-solved to show nothing was lost.
Installed by replacing the module attribute aldy.lpinterface.model (no repository hook)."""
import contextlib

TOL = 1e-4


def _solve_proto(proto, backend):
    from ortools.linear_solver import pywraplp

    s = pywraplp.Solver.CreateSolver(backend)
    if s is None:
        return None
    s.LoadModelFromProto(proto)
    s.SuppressOutput()
    # HiGHS prints a banner at C level: silence file descriptor 1 for the duration of the solve
    import os
    import sys

    sys.stdout.flush()
    saved = os.dup(1)
    devnull = os.open(os.devnull, os.O_WRONLY)
    try:
        os.dup2(devnull, 1)
        st = s.Solve()
    finally:
        os.dup2(saved, 1)
        os.close(saved)
        os.close(devnull)
    if st == pywraplp.Solver.OPTIMAL:
        return ("optimal", s.Objective().Value())
    if st == pywraplp.Solver.INFEASIBLE:
        return ("infeasible", None)
    return ("other:%d" % st, None)


def _check_point(proto, values, tol=1e-5):
    """values: list of variable values in proto order. -> (max violation, objective)"""
    worst = 0.0
    for i, v in enumerate(proto.variable):
        x = values[i]
        worst = max(worst, v.lower_bound - x, x - v.upper_bound)
        if v.is_integer:
            worst = max(worst, abs(x - round(x)))
    for c in proto.constraint:
        lhs = sum(co * values[i] for i, co in zip(c.var_index, c.coefficient))
        worst = max(worst, c.lower_bound - lhs, lhs - c.upper_bound)
    obj = proto.objective_offset + sum(v.objective_coefficient * values[i] for i, v in enumerate(proto.variable))
    return worst, obj


@contextlib.contextmanager
def audit(findings, stats, heavy=True, max_vars=4000):
    """findings: list that receives dicts {clause, ...}; stats: Counter."""
    import aldy.lpinterface as L
    from ortools.linear_solver import linear_solver_pb2

    orig_model = L.model

    class AuditCBC(L.CBC):
        def __init__(self, name):
            super().__init__(name)
            self._name = name
            self._first = True
            self._best = None
            self._gap = 0.0
            self._yielded = []

        def _export(self):
            proto = linear_solver_pb2.MPModelProto()
            self.model.ExportModelToProto(proto)
            return proto

        def solve(self, init=None):
            nvars = self.model.NumVariables()
            first = self._first
            self._first = False
            proto = self._export() if (first and nvars <= max_vars) else None
            try:
                status, obj = super().solve(init)
            except L.NoSolutionsError:
                if proto is not None:
                    stats["models"] += 1
                    for be in ("SCIP", "HIGHS") if heavy else ("SCIP",):
                        r = _solve_proto(proto, be)
                        if r and r[0] == "optimal":
                            findings.append({"clause": "cbc-infeasible-but-%s-optimal" % be.lower(), "model": self._name, "other": r[1], "nvars": nvars})
                raise
            if proto is not None:
                stats["models"] += 1
                stats["models>=20vars"] += int(nvars >= 20)
                if status == "optimal":
                    for be in ("SCIP", "HIGHS") if heavy else ("SCIP",):
                        r = _solve_proto(proto, be)
                        if r is None:
                            stats["backend-missing:" + be] += 1
                            continue
                        stats["cross-solved:" + be] += 1
                        if r[0] == "optimal" and abs(r[1] - obj) > TOL * max(1.0, abs(obj)):
                            findings.append({"clause": "optimum-differs-from-%s" % be.lower(), "model": self._name, "cbc": obj, "other": r[1], "nvars": nvars})
                        elif r[0] == "infeasible":
                            findings.append({"clause": "cbc-optimal-but-%s-infeasible" % be.lower(), "model": self._name, "cbc": obj})
            # every solution: feasibility of the full snapshot against the current exported model
            if status == "optimal" and nvars <= max_vars:
                p2 = self._export()
                vals = [v.solution_value() for v in self.model.variables()]
                worst, o2 = _check_point(p2, vals)
                stats["solutions-verified"] += 1
                if worst > 1e-4:
                    findings.append({"clause": "yielded-point-violates-constraints", "model": self._name, "violation": worst})
                if abs(o2 - obj) > TOL * max(1.0, abs(obj)):
                    findings.append({"clause": "reported-objective-differs-from-point", "model": self._name, "reported": obj, "recomputed": o2})
            return status, obj

        def solutions(self, gap=0, best_obj=None, limit=None, iteration=0, init=None):
            if iteration == 0:
                self._gap = gap
            n = 0
            last = None
            for st, obj, names in super().solutions(gap, best_obj, limit, iteration, init):
                if iteration == 0:
                    if self._best is None:
                        self._best = obj
                    n += 1
                    last = obj
                yield st, obj, names
            # exhausted (the consumer did not break out): nothing within the gap may be left
            if iteration == 0 and self._best is not None and limit is None and self.model.NumVariables() <= max_vars and heavy:
                r = _solve_proto(self._export(), "SCIP")
                stats["exhaustion-checks"] += 1
                if r and r[0] == "optimal":
                    ub = (1 + self._gap) * self._best
                    if r[1] < ub - 1e-5 - 1e-9 * abs(ub):
                        findings.append({"clause": "within-gap-solution-left-after-exhaustion", "model": self._name, "left": r[1], "bound": ub,
                                         "best": self._best, "gap": self._gap})

    def factory(name, solver):
        if solver in ("cbc", "any"):
            return AuditCBC(name)
        return orig_model(name, solver)

    L.model = factory
    try:
        yield
    finally:
        L.model = orig_model
