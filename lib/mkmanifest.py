"""Regenerates /verif/MANIFEST.json from the table below (keeps it schema-valid at all times)."""
import json
import os
import sys

HERE = os.path.dirname(os.path.dirname(os.path.abspath(__file__)))

# id -> (technique, level text, level note, design ref)
CHECKS = {
    "C01": (
        "Hypothesis-generated databases and planted genotypes, simulated error-free reads, end-to-end genotype() against the planted truth",
        "End-to-end search: a generated gene database (either strand, pseudogene, alignment gaps, SNP/MNP/insertion/deletion alleles, "
        "deletion and fusion structures) and a planted admissible genotype are turned into an error-free BAM and genotyped through the "
        "public genotype() - reads carry the variants of the database's RefSeq-level description, converted to genome coordinates by "
        "the harness' own code, and 1 case in 16 uses a shipped small gene on its real coordinates; the planted major multiset must be among the best solutions and every best solution must carry exactly the "
        "planted variants. The property's own condition (planted structure optimal for the depths) is verified per case with an independent "
        "structure enumerator. Two recorded findings are attributed precisely: KF1 by counter-factual re-run with the true reference "
        "sequence, KF2 by a direct call of the vendored indelpost library compared with the CIGAR truth.",
        "Perfect-aligner simulator with exactly uniform depth; CBC solver; generated databases of 300-2000 bp plus 7 (quick) / 12 (thorough) shipped genes.",
        "DESIGN.md 5/C01",
    ),
    "C19": (
        "Hypothesis-generated fault-shaped alignment files (holes in gene / pseudogene / neutral region, depth below minimum) over generated databases; must-raise / must-not-report oracle",
        "For each generated database a BAM is simulated with a drawn hole mode and genotyped through genotype() on four routes (profile BAM, "
        "profile file, user-supplied structure with and without a profile), five output formats and the single/multi-gene form. Hole modes "
        "include reads that end exactly at / start right after the locus and reads only between gene and pseudogene. Modes without "
        "data must raise AldyException, report nothing and leave exactly `sample<TAB>gene<TAB>` in simple output; pseudogene-only reads must be "
        "called deletion/deletion; the control must be called *1/*1 (so the guards are not trivially always on).",
        "Simulated reads only; mode 4 judged only with pseudogene + deletion allele + estimated structure; mode 5 only on routes using a neutral region.",
        "DESIGN.md 5/C19",
    ),
    "C02": (
        "differential testing of estimate_major against an exhaustive allele-multiset enumerator on Hypothesis-generated evidence tables; noise-free sweep over all shipped catalogues",
        "Optimality part: planted + noisy read-count tables (novel / competing / weak / dropped sites, fusions, deletions, 1-4 copies, gap "
        "0-0.5) over the toy gene and generated databases; an independent enumerator recomputes the evidence filter, the candidate alleles "
        "and the fit error of every admissible multiset: per-configuration copy counts, carried-XOR-novel bookkeeping, reported score = fit "
        "error, optimum, exact set of within-gap combinations, no duplicates. Noise-free part: pairs of catalogued majors of all 38 shipped "
        "genes x 2 builds (stride sample quick, all pairs thorough) and 1-4 copy multisets with fusions: planted combination reported with "
        "error zero.",
        "Scores at 1e-4; enumeration capped at 2e5 multisets; overlapping footprints not held to error zero.",
        "DESIGN.md 5/C02",
    ),
    "C03": (
        "differential testing of solve_cn_model against an exhaustive count-vector enumerator on Hypothesis-generated depth vectors; route predicates",
        "Region-depth vectors (planted structures of 0-5 configurations incl. inexpressible ones, noise <= 0.5, max copy number 3-6, gap 0-0.3, "
        "optional fusion-support values around the documented cut) over toy, CYP2A6, CYP2D6, GSTM1 and generated databases are solved and "
        "compared with an enumerator of all admissible count vectors written from the documented objective: well-formedness, optimum, "
        "per-structure score (with the exclusion-cut allowance), gap bound, no duplicates, completeness modulo supersets, region_cn. Routes: "
        "verbatim user structure, unknown names rejected, two-copy default for genes without structural alleles / exome switch / VCF input, "
        "one copy for male + X/Y.",
        "Scores at 1e-4; enumeration bounded by max copy number 6; exome route through the do_copy_number switch only.",
        "DESIGN.md 5/C03",
    ),
    "C04": (
        "differential testing of estimate_minor against an exhaustive (minor x kept x added) enumerator with phase term on Hypothesis-generated tables; safety invariants; noise-free sweep over shipped catalogues",
        "Optimality part: toy gene and tiny generated databases (multi-allelic sites, fusions), major solutions of 1-3 copies, planted + noisy "
        "tables with extra / dropped sites and optional read-phase records (consistent and chimeric fragments); an independent enumerator "
        "restates rules 1-6 and the objective (fit error + miss/add/novel penalties + phase disagreement) and evaluates every assignment: "
        "reported score within [optimum, optimum + tie-breaker]. Safety predicates on every reported allele (minor of the called major, core "
        "variants kept, additions only with copies and filtered support, support for every carried variant, one variant per position, every "
        "supported considered variant carried). Noise-free part: pairs of catalogued minor alleles of all shipped genes reproduce the planted "
        "variant multiset.",
        "Tie-breaker not modelled (1e-3 allowance); enumeration capped at 4e5 assignments.",
        "DESIGN.md 5/C04",
    ),
    "C05": (
        "differential testing: Hypothesis-generated models vs exhaustive enumeration of all binary assignments; exhaustive helper linearisations; cross-solver (SCIP, HiGHS) audit of the models aldy builds",
        "(i) random models of aldy's shape built through aldy.lpinterface and enumerated over all 2^n binary assignments: first solution "
        "optimal, every yielded tuple feasible with its objective and within the gap, no duplicates, non-decreasing order, nothing within the "
        "gap lost except supersets of yielded solutions, typed read-back, unique escaped names; (ii) exhaustive: product of 1-4 factors is the "
        "AND for every factor assignment (min and max of the product variable), abssum equals the weighted sum of absolute values for all sign "
        "patterns of 1-4 terms; (iii) every model the structure / major / minor stages build for drawn toy-gene problems and for generated cases "
        "of the C02/C03/C04 checks is exported and solved with SCIP and HiGHS, each yielded point re-verified against the exported rows, and the exhausted model re-solved.",
        "CBC path only (Gurobi absent); SCIP/HiGHS trusted as independent solvers.",
        "DESIGN.md 5/C05",
    ),
    "C06": (
        "differential testing of Sample's evidence table against an independent CIGAR interpreter and htslib's pileup on Hypothesis-generated read sets, plus metamorphic relations",
        "Random read sets (CIGAR grammar over M,=,X,I,D,S,H incl. leading/adjacent indels, all flag kinds, mapq/base-quality bin edges, shared "
        "fragment names, reads outside/straddling the locus) plus low-depth simulator reads carrying catalogue SNP/MNP/indels are written as BAM "
        "and as permuted SAM; per position of every gene/pseudogene region the depth, reference/substitution/MNP counts and the (mapq, binned "
        "quality) multisets must equal the independent interpreter's (depth also htslib's), ineligible reads must contribute nothing, read "
        "order and CIGAR re-encoding (split M runs, =/X spelling) must not matter, and phase records must name an allele a read of the fragment "
        "shows. The depth / count / quality / phase clauses also run on the three shipped BAMs (NA10860 hg19 + hg38, PacBio) with indelpost on and off.",
        "pysam/htslib trusted as second opinion; long-read path and CRAM not generated; deleted-base qualities not judged.",
        "DESIGN.md 5/C06",
    ),
    "C07": (
        "metamorphic relations over Hypothesis-generated simulated samples (k-fold duplication, gene-only scaling, self-profile, profile route)",
        "Per generated database and planted sample: Sample() is built for S, k.S (every read k times), gene-only scaled S, for S with its own "
        "profile and for the BAM- and file-profile routes; region_coverage must be invariant / linear / exactly 2.0 / identical, estimate_cn "
        "must give the same structures and scores for S and k.S, and a sample without neutral-region reads must be rejected. Reads with "
        "D/I/S/=,X operations are mixed into neutral window and locus, the same profile BAM is loaded with a second neutral window in between, "
        "and the shipped NA10860 BAMs are profiled and normalised against themselves (exact expectation from the independent pileup).",
        "Simulated error-free reads plus NA10860; tolerance 1e-9 relative.",
        "DESIGN.md 5/C07",
    ),
    "C08": (
        "exhaustive enumeration over all shipped databases x builds + Hypothesis-generated dual-build databases; sequence-level apply-in-RefSeq vs apply-in-genome oracle",
        "Every variant of the 38 shipped databases in both builds (exhaustive) and of generated databases (all five variant kinds, either "
        "strand per build, alignment gaps, repeat context) is applied as written to the RefSeq sequence and as loaded to the genome-oriented "
        "reference; the oriented windows must be identical. Also: maps equal an independent reading of the alignment string and are mutually "
        "inverse, lookup sequence orientation, RefSeq notation round trip, amino-acid effect of non-catalogued exonic substitutions against an "
        "independent codon table, insertion flanks, the VCF-style variant handed to indelpost and the long-read equivalence keys.",
        "Windows limited to one ungapped alignment block; indelpost anchoring clause on generated databases only.",
        "DESIGN.md 5/C08",
    ),
    "C09": (
        "exhaustive enumeration over shipped databases + Hypothesis-generated catalogue-stress databases; independent re-grouping of the raw YAML as oracle, hg19-vs-hg38 diff",
        "An independent reader (yaml.safe_load, own alignment and region arithmetic) computes per database allele its structure signature and "
        "core/silent variant sets; compared with Gene: reachability by name, one major per allele, alleles share a major iff equal "
        "(structure, core set), no two identical majors / partials / minors, core = functional, configuration membership, fusion partials "
        "= parent restricted to retained regions (+ has_coverage), and identity of names, grouping, content, removed table and configuration "
        "vectors between hg19 and hg38. Exhaustive over the 38 shipped databases, generated for duplicates, name collisions, labels, fusions "
        "with/without core variants, custom deletions, zero-length regions, opposite strands.",
        "Variants partially outside the mapped RefSeq part and inconsistently annotated variants are counted but not judged.",
        "DESIGN.md 5/C09",
    ),
    "C10": (
        "recorded-stage recomputation on Hypothesis-generated noisy simulated samples (independent argmin/filter/carry-over) + chain invariants",
        "genotype() is run on simulated samples with fractional-copy noise layers (competing structures and major solutions), gap 0-0.3 and "
        "1-3 minor solutions while the returns of estimate_cn, estimate_major, solve_minor_model and estimate_minor are recorded; the major "
        "filter, both score carry-overs, the rescaling, the final within-gap set, its scores and its order are recomputed independently and "
        "compared; every reported solution must be a consistent chain (structure/major/minor/diplotype). A drawn stage is forced to return "
        "nothing: no genotype, the stage's error, the empty simple-output line.",
        "Recording wraps module attributes (no hook); thresholds within 2e-4 of a cut are not judged.",
        "DESIGN.md 5/C10",
    ),
    "C11": (
        "direct Hypothesis generation of solution objects over shipped and generated catalogues, every permutation of the copy order, predicate oracle",
        "Multisets of 0-6 major alleles (fusion partials, added core/silent variants, drawn minors) over toy, CYP2D6, CYP2A6, CYP2C19, GSTM1 and "
        "generated catalogues with tandem rules are arranged by estimate_diplotype in every permutation (<= 4 copies) or 24 drawn ones; checked: "
        "index partition, deletion placeholders exactly for missing haplotypes of genes with a deletion allele, non-empty haplotypes, rendered "
        "names, tandem adjacency, natural order within/between haplotypes, permutation independence for <= 2 copies.",
        "Tandem clause judged only for non-competing rules; display_format names are not parsed.",
        "DESIGN.md 5/C11",
    ),
    "C12": (
        "round-trip testing on Hypothesis-generated solution lists: write_decomposition / write_vcf -> parsers written from the README and VCF 4.2 -> compare",
        "Lists of 1-4 differing solutions (1-4 copies, added and lost variants, SNP/MNP/insertion/deletion alleles) over the toy gene, CYP2D6 and "
        "generated catalogues with drawn read counts are written by both writers and parsed back: decomposition rows per solution/copy equal "
        "the carried set (definition + added - lost), one empty row for copies without variants, Coverage/Effect/dbSNP/Major/Minor columns; "
        "VCF sample columns, per-copy GT, MA/MI naming, one-based POS and REF/ALT judged by applying the record to the genome reference; "
        "every carried variant has a record. Two recorded findings (D3, D4) are matched by computing the exact table those defects produce.",
        "REF/ALT clause skipped at sites where the database's own reference allele is inconsistent (toy gene).",
        "DESIGN.md 5/C12",
    ),
    "C13": (
        "metamorphic testing: the same RefSeq-level evidence transported to hg19 and hg38 (and to opposite strands of generated dual-build databases); simulated alignments per build",
        "Evidence is generated once in RefSeq terms (noise keyed by each variant's RefSeq notation, region depths keyed by region name) for "
        "planted alleles chosen by name and transported to both builds of any shipped database or of a generated database whose builds use "
        "opposite strands / different offsets / alignment gaps; solve_cn_model, estimate_major and estimate_minor results must be equal in "
        "RefSeq terms (structures, alleles, novel / added / lost variants, scores). Alignment layer: a planted sample simulated against each "
        "build and genotyped with genotype(): same structures, alleles, variants and diplotypes. A recorded finding (solver pick among "
        "equal-score optima depends on coordinates) is matched only for exact equal-score redistributions.",
        "Solver scores at 1e-4, minor scores at 2e-3; alignment layer does not compare scores.",
        "DESIGN.md 5/C13",
    ),
    "C14": (
        "stateful testing: Hypothesis RuleBasedStateMachine over operation histories with an invariant after every step; subprocess hash-seed sweep; subset/order metamorphic relation for the minor stage",
        "A rule-based state machine draws a fixture (two generated genes in one BAM, a gene without reads, a profile BAM) and up to 6 operations "
        "(single / multi-gene genotype() runs incl. a failing gene, stage calls on held objects, every public accessor of Gene, solution "
        "objects and Coverage, both writers, query printing, runs with a named shipped profile such as exome); after each step: equal to the "
        "fresh reference run computed before the history, equal result for a repeated operation, multi-gene = "
        "single-gene results, failing gene absent, deep structural equality of the held Gene with a fresh load and of the coverage tables "
        "with their snapshot. The same fixture is genotyped in fresh processes with PYTHONHASHSEED 0-7 (results and output files identical) "
        "and candidate major solutions are refined alone, in every subset and order. Failing histories are minimised by dropping operations "
        "and replayed from JSON without the library.",
        "Recorded finding D9 is matched only for candidate sets that differ in structure or pooled variant set; minor scores compared at 2e-3 (documented tie-breaker).",
        "DESIGN.md 5/C14",
    ),
    "C15": (
        "metamorphic testing on Hypothesis-generated evidence tables: inject / remove sub-threshold observations; independent support predicate",
        "For a planted noisy table of qualifying observations (half of them exactly on the thresholds) two different sets of observations "
        "failing min_quality or min_mapq (incl. threshold-1) are added at catalogue sites, as new variant keys and as reference reads; "
        "estimate_major and estimate_minor must return identical solutions and scores on all three tables, and every core variant of a called "
        "major, every novel variant and every carried variant of a refined allele must satisfy both count thresholds computed from qualifying "
        "observations only. Thresholds drawn over the documented ranges; toy, generated and small shipped genes.",
        "Table-level calls with a caller-supplied structure; no phasing input.",
        "DESIGN.md 5/C15",
    ),
    "C16": (
        "Hypothesis-generated VCF files planting catalogued alleles as standard left-anchored records; expected-evidence oracle + end-to-end call",
        "One or two catalogued alleles of a generated database are written as VCF records (SNP, deletion, insertion, MNP as one record or as "
        "adjacent records; phased/unphased; REF-mismatch spelling; multi-sample files, sample index 0-3) plus foreign-shaped records and "
        "non-diploid/missing genotypes; the evidence table of Sample() must show c x u support per variant and (2-c) x u reference support "
        "(u measured on an anchor het SNP), nothing else, no exception; genotype() on the file must report the planted major pair. "
        "1 case in 12 uses a shipped gene on its real coordinates.",
        "bgzip/tabix through pysam; insertion reference support may stay at two copies or be reduced (both accepted).",
        "DESIGN.md 5/C16",
    ),
    "C17": (
        "round trip over Hypothesis-generated simulated samples: `aldy genotype --debug` through main(), then the archive genotyped again",
        "The CLI is run in-process with --debug on a simulated BAM (one or two genes, indels, extra copies, gap 0-0.3, 1-3 minor solutions, "
        ".aldy/.vcf/.simple output, reads with deletions / mismatches over the pseudogene, neutral windows with uncovered positions) and on the "
        "shipped NA10860 BAM; the produced tar.gz is genotyped with the same parameters; output files must be byte-identical and the "
        "API results (structures, major/minor solutions, added/missing variants, scores, diplotypes) equal for every gene.",
        "Needs the `tar` binary (aldy shells out to it); cases whose solver enumeration exceeds 60 s are counted as inconclusive (label case-timeout).",
        "DESIGN.md 5/C17",
    ),
    "C18": (
        "exhaustive enumeration + Hypothesis generation against a typed-value reference model",
        "Every boolean parameter x 19 spellings x 6 routes enumerated exhaustively; numeric/string values, unknown names, "
        "hyphenated names and multi-parameter combinations generated by Hypothesis; the Profile a run actually used is "
        "captured at Sample construction and compared with a typed-value model written from the docstrings.",
        "Trusts PyYAML and argparse; the CLI route intercepts aldy.sam.Sample.__init__ to capture the profile, so it does not run the solvers.",
        "DESIGN.md 5/C18",
    ),
}

NOT_APPLICABLE = {}

ALL = [f"C{i:02d}" for i in range(1, 20)]


# what the second round of seeded changes added to each check (appended to the level text)
ROUND2 = {
    "C01": " Databases may hold a second insertion near a first one that repeats its bases; alleles with a deletion-insertion variant are outside the domain.",
    "C02": " Every third case asks the same evidence object again under a second structure; stray evidence = uncatalogued base changes at core-variant positions.",
    "C03": " Cases with long-read fusion support make a second call on the same Gene object; the enumerator reads the catalogue from a separately loaded object.",
    "C04": " The refinement is also run on two major calls at once (either order, optional novel core variant), on calls holding one allele several times with its core variant under-represented, and on structures made only of fusion alleles that list variants in the part of the gene they lack.",
    "C05": " Name styles include names longer than the 200-character limit; planted exact right-hand sides give zero-optimum models with fractional competitors.",
    "C06": " Reads may contain no-call (N) bases.",
    "C07": " The sample is also loaded twice with the same Profile object.",
    "C09": " Stress databases may contain fusion alleles that list variants in the part of the gene they do not retain; region keys of a build may be listed in any order.",
    "C13": " Table layer: non-catalogue exonic substitutions are transported to both builds and refined in novel mode; equal-score optima that differ between builds are matched as recorded findings only when the exhaustive enumerator confirms both are optimal.",
    "C14": " Minor-stage operations draw their candidate set and are compared with the same call on a freshly loaded sample.",
    "C15": " Structures may contain the deletion allele; weak qualifying evidence (random and directed into the window between the two copy-number thresholds); thresholds changed on evidence that has already been genotyped.",
    "C16": " Indel records may be padded with shared leading bases; multi-allelic sites are written as two records or one 1/2 record.",
    "C17": " Cases draw a user-supplied structure and the parameters that are not stored in the archive; the shipped BAM is also replayed under the exome profile.",
    "C18": " Parameter types come from the documented table written into the check.",
    "C19": " Mode 9: a non-integer minimum depth just above the measured depth; every third case genotypes a healthy sample of the same file name first.",
}


ROUND3 = {'C01': ' Round 3: substitutions on the very first / last RefSeq base.', 'C02': ' Round 3: evidence objects with an indel re-alignment table (modelled by the reference filter and enumerator), deep near-tie evidence.', 'C03': ' A sub-optimal point returned by the CBC backend as optimal is recorded (KF-CBC) and matched only when a fresh CBC and SCIP disagree on the exported model.', 'C04': ' Round 3: observations below the quality thresholds.', 'C05': ' Round 3: a continuous [0,1] variable in the enumeration models; planted zero-optimum models under a 20-150 ms time limit handed over through the init hook.', 'C06': ' Round 3: directed reads ending exactly on catalogued insertion sites.', 'C07': " Round 3: a self-profile whose neutral region lies on another chromosome at coordinates overlapping the gene's.", 'C09': " Round 3: every allele's configuration vector compared with the regions its entry names; region lookup of first / last / middle base of every region; genes with 10-12 exons; equal-size custom deletions.", 'C10': ' Round 3: fault mode in which only the first structure has no major solution; a pipeline failure caused by recorded finding D9 is attributed by refining the candidates alone.', 'C12': ' Round 3: deletion-insertion variants.', 'C13': ' Round 3: boundary bases of every region compared across builds; edge sites and mirrored read tiling at the alignment layer.', 'C14': " Round 3: a second sample of the same gene (same read names) genotyped between operations, phase records part of the held sample's image; D9 matched only when an enumerator given D9's two ingredients reproduces the score; in-process result compared with a fresh process.", 'C15': " Round 3: a variant pushed below the fraction only when a third allele's qualifying reads are counted.", 'C16': ' Round 3: REF mismatch inside deletions; directed complex records at catalogued indel anchors; a right-shifted indel of a multi-allelic record in a repeat was found this way and repaired in the repository.', 'C17': ' Round 3: multi-gene archives whose gene names contain one another.', 'C19': ' Round 3: mode 10, reads abutting an empty neutral region on both sides.'}


ROUND4 = {'C06': ' Round 4: alignments spanning the whole gene region / starting on its first base / ending on its last.', 'C10': ' Round 4: mode in which the second-best refined candidate is moved into the documented tolerance window of the final filter.', 'C12': ' Round 4: copies carrying an insertion and another variant at one position.', 'C16': ' Round 4: indel records in the left-aligned form callers write (led to a repository fix), generated genes on chromosome X.'}


def main():
    checks = []
    for pid in ALL:
        if pid not in CHECKS:
            continue
        tech, text, note, ref = CHECKS[pid]
        text += ROUND2.get(pid, "") + ROUND3.get(pid, "") + ROUND4.get(pid, "")
        checks.append({
            "property_id": pid,
            "quick_cmd": f"./check {pid} --tier quick",
            "thorough_cmd": f"./check {pid} --tier thorough",
            "evidence_file": f"evidence/{pid}.json",
            "replay_cmd_template": f"./check {pid} --replay {{path}}",
            "engine": "pbt-runner",
            "level_claimed": {"category": "exploration", "text": text, "design_ref": ref},
            "level_note": note,
            "technique": tech,
        })
    na = []
    for pid in ALL:
        if pid not in CHECKS:
            na.append({"property_id": pid, "reason": NOT_APPLICABLE.get(pid, "check not built yet in this round (planned; see DESIGN.md section 5)")})
    m = {
        "version": 1,
        "setup_cmd": "./setup.sh",
        "hooks": {
            "guard": "ALDY_VERIF",
            "enable": "no source hooks: the checks monkey-patch module attributes of the aldy package imported from /repo's working tree (PYTHONPATH=/repo)",
            "baseline_off_cmd": "cd /repo && /venv/bin/python -m pytest -ra -q -p no:cacheprovider --timeout=900 --continue-on-collection-errors",
            "source_commits": [],
            "add_only": True,
        },
        "engines": [{
            "name": "pbt-runner",
            "path": "lib/runner.py",
            "serves_properties": [c["property_id"] for c in checks],
            "kind_free_text": "sharded Hypothesis search + exhaustive enumeration, collect-then-shrink, JSON replay files, known-finding matching",
        }],
        "checks": checks,
        "not_applicable": na,
        "notes": "All checks: ./check <id> --tier quick|thorough ; VERIF_SEED selects the Hypothesis seed; VERIF_REPO selects the tree (default /repo).",
    }
    with open(os.path.join(HERE, "MANIFEST.json"), "w") as f:
        json.dump(m, f, indent=1)
    try:
        import jsonschema

        jsonschema.validate(m, json.load(open("/root/.vp/MANIFEST.schema.json")))
        print("MANIFEST.json valid,", len(checks), "checks")
    except ImportError:
        print("MANIFEST.json written (jsonschema not available for validation)")


if __name__ == "__main__":
    sys.exit(main())
