"""Common machinery: sharded Hypothesis search, exhaustive enumeration, collect-then-shrink,
known findings, replay files and evidence (DESIGN.md section 2).

A property module (props/Cxx.py) exposes

    ID            "Cxx"
    RULE          text: how cases are generated and what makes one non-trivial
    ASSUMPTIONS   list of strings
    strategy(tier)     -> Hypothesis strategy of JSON-able case dicts, or None
    budget(tier)       -> {"examples": N, "shards": k}
    enum_cases(tier)   -> list of JSON-able case dicts run exhaustively (optional)
    run_case(case)     -> Result(...)

A case is JSON, run_case is a pure function of (case, code under test).  A replay file is
{"property": id, "case": case}.
"""
import collections
import hashlib
import importlib
import json
import multiprocessing
import os
import sys
import time
import traceback

VERIF = os.path.dirname(os.path.dirname(os.path.abspath(__file__)))
REPO = os.path.abspath(os.environ.get("VERIF_REPO", "/repo"))
ALDY_DIR = os.path.join(REPO, "aldy") + os.sep


def scratch():
    """Per-run scratch directory (removed by the main process at the end of the run)."""
    d = os.environ.get("VERIF_SCRATCH")
    if not d:
        import tempfile

        d = tempfile.mkdtemp(prefix="verif_")
        os.environ["VERIF_SCRATCH"] = d
    sub = os.environ.get("VERIF_SCRATCH_SUB") or os.path.join(d, str(os.getpid()))
    os.makedirs(sub, exist_ok=True)
    return sub


def cleanup_scratch():
    d = os.environ.pop("VERIF_SCRATCH", None)
    if d and os.path.isdir(d):
        import shutil

        shutil.rmtree(d, ignore_errors=True)


class Result:
    __slots__ = ("violations", "labels", "nontrivial", "digest", "info")

    def __init__(self, violations=None, labels=None, nontrivial=False, digest=None, info=None):
        self.violations = violations or []
        self.labels = labels or []
        self.nontrivial = nontrivial
        self.digest = digest
        self.info = info


def V(bucket, **detail):
    """A violation: `bucket` is the root-cause signature, detail is free-form JSON."""
    return {"bucket": bucket, "detail": detail}


class StopRun(BaseException):
    """Budget exhausted: aborts a Hypothesis run without counting as a failure."""


class HarnessError(Exception):
    pass


def canon(case):
    return json.dumps(case, sort_keys=True, separators=(",", ":"), default=str)


def digest_of(case):
    return hashlib.sha1(canon(case).encode()).hexdigest()[:16]


def hash32(*parts):
    return int(hashlib.sha1("|".join(map(str, parts)).encode()).hexdigest()[:8], 16)


def _classify_exception(exc):
    """('aldy', bucket) if the innermost repo/harness frame is inside REPO/aldy, else ('harness', text)."""
    tb = traceback.extract_tb(exc.__traceback__)
    where = None
    for fr in reversed(tb):
        fn = os.path.abspath(fr.filename)
        if fn.startswith(ALDY_DIR) and "/tests/" not in fn:
            where = ("aldy", f"{os.path.relpath(fn, REPO)}:{fr.name}")
            break
        if fn.startswith(VERIF + os.sep):
            where = ("harness", f"{os.path.relpath(fn, VERIF)}:{fr.name}:{fr.lineno}")
            break
    if where is None:
        where = ("harness", "?")
    return where


class CaseTimeout(BaseException):
    pass


def _alarm(signum, frame):
    raise CaseTimeout()


def _note_timeout(mod, case):
    try:
        os.makedirs(os.path.join(VERIF, "out"), exist_ok=True)
        with open(os.path.join(VERIF, "out", f"timeout-{mod.ID}-{digest_of(case)}.json"), "w") as f:
            json.dump({"property": mod.ID, "case": case}, f)
    except OSError:
        pass


def _isolated_run(mod, case, cap):
    """Run one case in a forked child so that a solver call that never returns can be killed.
    The child shares the parent's scratch directory."""
    import pickle
    import select
    import signal

    sub = scratch()
    r, w = os.pipe()
    pid = os.fork()
    if pid == 0:
        code = 0
        try:
            os.close(r)
            os.environ["VERIF_SCRATCH_SUB"] = sub
            res, err = _safe_run(mod, case)
            data = pickle.dumps((res.violations, res.labels, res.nontrivial, res.digest, res.info, err))
            with os.fdopen(w, "wb") as f:
                f.write(data)
        except BaseException:  # noqa
            code = 3
        finally:
            os._exit(code)
    os.close(w)
    chunks = []
    deadline = time.time() + cap
    timed_out = False
    with os.fdopen(r, "rb", buffering=0) as f:
        while True:
            left = deadline - time.time()
            if left <= 0:
                timed_out = True
                break
            ready, _, _ = select.select([f], [], [], min(left, 5.0))
            if ready:
                b = f.read(1 << 16)
                if not b:
                    break
                chunks.append(b)
    if timed_out:
        try:
            os.kill(pid, signal.SIGKILL)
        except OSError:
            pass
    os.waitpid(pid, 0)
    if timed_out:
        _note_timeout(mod, case)
        return Result([], ["case-timeout"], False), None
    try:
        viol, labels, nontrivial, dg, info, err = pickle.loads(b"".join(chunks))
    except Exception as e:  # noqa
        return Result([], ["harness-error"], False), f"isolated child died without a result ({e})"
    return Result(viol, labels, nontrivial, dg, info), err


def safe_run(mod, case):
    """run_case with exception bucketing.  Returns (Result, harness_error_text|None).
    A case that exceeds the per-case wall-clock cap is counted as inconclusive (label `case-timeout`),
    never as a violation.  Modules with ISOLATE = True run every case in a forked child (solver calls
    cannot be interrupted from Python)."""
    import signal

    cap = int(os.environ.get("VERIF_CASE_TIMEOUT", getattr(mod, "CASE_TIMEOUT", 180)))
    if getattr(mod, "ISOLATE", False) and not os.environ.get("VERIF_NO_ISOLATE"):
        return _isolated_run(mod, case, cap)
    old = signal.signal(signal.SIGALRM, _alarm)
    signal.alarm(cap)
    try:
        return _safe_run(mod, case)
    except CaseTimeout:
        _note_timeout(mod, case)
        return Result([], ["case-timeout"], False), None
    finally:
        signal.alarm(0)
        signal.signal(signal.SIGALRM, old)


def _safe_run(mod, case):
    try:
        res = mod.run_case(case)
        if not isinstance(res, Result):
            raise HarnessError(f"run_case returned {type(res)}")
        return res, None
    except StopRun:
        raise
    except Exception as exc:  # noqa
        kind, where = _classify_exception(exc)
        text = "".join(traceback.format_exception(type(exc), exc, exc.__traceback__))[-3000:]
        if kind == "aldy":
            b = f"exc:{type(exc).__name__}@{where}"
            return Result([V(b, message=str(exc)[:300], trace=text[-1500:])], ["aldy-exception"], True), None
        return Result([], ["harness-error"], False), f"{type(exc).__name__} at {where}: {exc}\n{text}"


class Acc:
    """Accumulates what one worker saw."""

    def __init__(self):
        self.evaluations = 0
        self.nontrivial = set()
        self.labels = collections.Counter()
        self.buckets = {}  # bucket -> {"count", "case", "detail", "size", "origin"}
        self.samples = []
        self.errors = []
        self.exhausted = False

    def add(self, case, res, err, origin):
        self.evaluations += 1
        if err:
            if len(self.errors) < 3:
                self.errors.append({"case": case, "error": err})
            self.labels["harness-error"] += 1
            return
        d = res.digest or digest_of(case)
        if res.nontrivial:
            self.nontrivial.add(d)
            if len(self.samples) < 3:
                s = {"case": case, "labels": sorted(set(res.labels))}
                if res.info is not None:
                    s["info"] = res.info
                self.samples.append(s)
        for lab in set(res.labels):
            self.labels[lab] += 1
        size = len(canon(case))
        for v in res.violations:
            b = v["bucket"]
            cur = self.buckets.get(b)
            if cur is None:
                self.buckets[b] = {"count": 1, "case": case, "detail": v["detail"], "size": size, "origin": origin}
            else:
                cur["count"] += 1
                if size < cur["size"]:
                    cur.update(case=case, detail=v["detail"], size=size, origin=origin)

    def to_dict(self):
        return {
            "evaluations": self.evaluations,
            "nontrivial": sorted(self.nontrivial),
            "labels": dict(self.labels),
            "buckets": self.buckets,
            "samples": self.samples,
            "errors": self.errors,
            "exhausted": self.exhausted,
        }


def merge(parts):
    out = Acc()
    for p in parts:
        out.evaluations += p["evaluations"]
        out.nontrivial |= set(p["nontrivial"])
        out.labels.update(p["labels"])
        for b, v in p["buckets"].items():
            cur = out.buckets.get(b)
            if cur is None:
                out.buckets[b] = dict(v)
            else:
                cur["count"] += v["count"]
                if v["size"] < cur["size"]:
                    c = cur["count"]
                    cur.update(v)
                    cur["count"] = c
        for s in p["samples"]:
            if len(out.samples) < 5:
                out.samples.append(s)
        out.errors += p["errors"]
        out.exhausted |= p["exhausted"]
    return out


def load_mod(pid):
    if VERIF not in sys.path:
        sys.path.insert(0, VERIF)
    return importlib.import_module(f"props.{pid}")


def _hyp_settings(n, shrink=False):
    from hypothesis import settings, HealthCheck, Phase

    return settings(
        max_examples=n,
        database=None,
        deadline=None,
        derandomize=False,
        report_multiple_bugs=False,
        suppress_health_check=list(HealthCheck),
        phases=[Phase.generate, Phase.shrink] if shrink else [Phase.generate],
        print_blob=False,
    )


def _hyp_shard(args):
    pid, tier, seed, shard, n, deadline = args
    import hypothesis
    from hypothesis import given

    mod = load_mod(pid)
    strat = mod.strategy(tier)
    acc = Acc()
    sseed = hash32(seed, pid, shard)

    @hypothesis.seed(sseed)
    @_hyp_settings(n)
    @given(strat)
    def t(case):
        if time.time() > deadline:
            raise StopRun()
        res, err = safe_run(mod, case)
        acc.add(case, res, err, {"kind": "hyp", "shard": shard, "n": n})

    try:
        t()
    except StopRun:
        acc.exhausted = True
    return acc.to_dict()


def _enum_chunk(args):
    pid, tier, cases, deadline = args
    mod = load_mod(pid)
    acc = Acc()
    for case in cases:
        if time.time() > deadline:
            acc.exhausted = True
            break
        res, err = safe_run(mod, case)
        acc.add(case, res, err, {"kind": "enum"})
    return acc.to_dict()


def _shrink_job(args):
    """Re-run the shard that produced `bucket` with the test failing on that bucket, so that
    Hypothesis finds the same example again and shrinks it.  Bounded by wall-clock through a
    BaseException abort; the smallest failing case seen so far is the answer."""
    pid, tier, seed, bucket, info, budget_s = args
    import hypothesis
    from hypothesis import given

    mod = load_mod(pid)
    best = {"case": info["case"], "size": info["size"], "detail": info["detail"], "shrunk": False}
    origin = info["origin"]
    if origin.get("kind") != "hyp":
        return bucket, best
    strat = mod.strategy(tier)
    sseed = hash32(seed, pid, origin["shard"])
    t0 = time.time()

    @hypothesis.seed(sseed)
    @_hyp_settings(origin["n"], shrink=True)
    @given(strat)
    def t(case):
        if time.time() - t0 > budget_s:
            raise StopRun()
        res, err = safe_run(mod, case)
        if err:
            return
        for v in res.violations:
            if v["bucket"] == bucket:
                size = len(canon(case))
                if size <= best["size"]:
                    best.update(case=case, size=size, detail=v["detail"], shrunk=True)
                raise AssertionError(bucket)

    try:
        t()
    except StopRun:
        pass
    except AssertionError:
        pass
    except Exception:  # hypothesis Flaky etc.: keep what we have
        pass
    return bucket, best


def load_known(pid):
    path = os.path.join(VERIF, "known_findings.json")
    if not os.path.exists(path):
        return {}
    with open(path) as f:
        data = json.load(f)
    return {e["bucket"]: e for e in data.get("findings", []) if e["property"] == pid}


def run_replay(pid, path):
    scratch()
    try:
        return _run_replay(pid, path)
    finally:
        cleanup_scratch()


def _run_replay(pid, path):
    mod = load_mod(pid)
    with open(path) as f:
        data = json.load(f)
    case = data["case"] if "case" in data else data
    res, err = safe_run(mod, case)
    if err:
        print("HARNESS-ERROR", err)
        return 2
    known = load_known(pid)
    rc = 0
    for v in res.violations:
        if v["bucket"] in known:
            print(f"KNOWN-FINDING: property={pid} {known[v['bucket']]['description']}")
        else:
            print(f"VIOLATION property={pid} replay={path}")
            print("  bucket:", v["bucket"])
            print("  detail:", json.dumps(v["detail"], default=str)[:2000])
            rc = 1
    if not res.violations:
        print(f"replay {path}: property held (labels={sorted(set(res.labels))})")
    return rc


def run_property(pid, tier, seed):
    scratch()
    try:
        return _run_property(pid, tier, seed)
    finally:
        cleanup_scratch()


def _run_property(pid, tier, seed):
    t0 = time.time()
    mod = load_mod(pid)
    known = load_known(pid)
    limit = float(os.environ.get("VERIF_TIME_LIMIT", getattr(mod, "TIME_LIMIT", {}).get(tier, 1500 if tier == "quick" else 6 * 3600)))
    deadline = t0 + limit
    ncpu = int(os.environ.get("VERIF_JOBS", "16"))
    parts = []
    ctx = multiprocessing.get_context("fork")

    # 1. committed replays (regression tier)
    replays_run = 0
    rdir = os.path.join(VERIF, "replays", pid)
    racc = Acc()
    if os.path.isdir(rdir):
        for fn in sorted(os.listdir(rdir)):
            if fn.endswith(".json"):
                with open(os.path.join(rdir, fn)) as f:
                    data = json.load(f)
                case = data["case"]
                res, err = safe_run(mod, case)
                racc.add(case, res, err, {"kind": "replay", "file": fn})
                replays_run += 1
    parts.append(racc.to_dict())

    # 2. exhaustive part
    exhaustive_n = 0
    if hasattr(mod, "enum_cases"):
        cases = list(mod.enum_cases(tier))
        exhaustive_n = len(cases)
        if cases:
            k = max(1, min(len(cases), ncpu * 4))
            chunks = [cases[i::k] for i in range(k)]
            with ctx.Pool(min(ncpu, k)) as pool:
                parts += pool.map(_enum_chunk, [(pid, tier, c, deadline) for c in chunks], chunksize=1)

    # 3. generated part
    strat_present = getattr(mod, "strategy", None) is not None and mod.strategy(tier) is not None
    bud = mod.budget(tier) if hasattr(mod, "budget") else {"examples": 0, "shards": 1}
    if strat_present and bud["examples"] > 0:
        shards = max(1, min(bud.get("shards", ncpu), bud["examples"]))
        per = -(-bud["examples"] // shards)
        with ctx.Pool(min(ncpu, shards)) as pool:
            parts += pool.map(_hyp_shard, [(pid, tier, seed, s, per, deadline) for s in range(shards)], chunksize=1)

    # 3b. property-specific generators that do not fit the case strategy (e.g. rule-based state machines)
    if hasattr(mod, "extra_parts"):
        parts += mod.extra_parts(tier, seed, deadline, ncpu)

    acc = merge(parts)

    # 4. judge buckets
    new = {b: v for b, v in acc.buckets.items() if b not in known}
    hits = {b: v["count"] for b, v in acc.buckets.items() if b in known}
    outdir = os.path.join(VERIF, "out")
    lines = []
    if new:
        os.makedirs(outdir, exist_ok=True)
        order = sorted(new, key=lambda b: new[b]["size"])
        nshrink = 3 if tier == "quick" else 8
        budget_s = 30 if tier == "quick" else 300
        if os.environ.get("VERIF_NO_SHRINK"):
            nshrink = 0
        jobs = [(pid, tier, seed, b, new[b], budget_s) for b in order[:nshrink]]
        shrunk = {}
        if jobs:
            with ctx.Pool(min(ncpu, len(jobs))) as pool:
                for b, best in pool.map(_shrink_job, jobs, chunksize=1):
                    shrunk[b] = best
        for b in order:
            best = shrunk.get(b) or {"case": new[b]["case"], "detail": new[b]["detail"], "shrunk": False}
            name = f"{pid}-{hashlib.sha1(b.encode()).hexdigest()[:10]}.json"
            path = os.path.join(outdir, name)
            with open(path, "w") as f:
                json.dump({"property": pid, "bucket": b, "case": best["case"], "detail": best["detail"],
                           "shrunk": best.get("shrunk", False), "count": new[b]["count"]}, f, indent=1, default=str)
            lines.append(f"VIOLATION property={pid} replay={path}")
            print(f"VIOLATION property={pid} replay={path}")
            print(f"  bucket: {b}  (hits: {new[b]['count']}, shrunk: {best.get('shrunk', False)})")
            print("  detail:", json.dumps(best["detail"], default=str)[:1500])
    for b in sorted(hits):
        print(f"KNOWN-FINDING: property={pid} {known[b]['description']} (hits: {hits[b]})")
        try:  # keep the smallest instance of a recorded finding for inspection (never read back)
            os.makedirs(outdir, exist_ok=True)
            with open(os.path.join(outdir, f"known-{pid}-{hashlib.sha1(b.encode()).hexdigest()[:10]}.json"), "w") as f:
                json.dump({"property": pid, "bucket": b, "case": acc.buckets[b]["case"], "detail": acc.buckets[b]["detail"]}, f, indent=1, default=str)
        except OSError:
            pass

    # 5. evidence
    wall = time.time() - t0
    level = getattr(mod, "LEVEL", "exploration")
    cov = {
        "evaluations": acc.evaluations,
        "distinct_nontrivial": len(acc.nontrivial),
        "rule": mod.RULE,
        "samples": acc.samples[:5],
        "labels": dict(sorted(acc.labels.items(), key=lambda x: (-x[1], x[0]))),
        "replays_run": replays_run,
        "known_finding_hits": hits,
        "exhaustive_part_cases": exhaustive_n,
        "generated_budget": bud,
        "budget_exhausted": acc.exhausted,
        "new_violation_buckets": sorted(new),
        "explanation": getattr(mod, "EXPLANATION", ""),
    }
    if getattr(mod, "EXHAUSTIVE_ONLY", False):
        cov["exhaustive"] = not acc.exhausted
    ev = {
        "property_id": pid,
        "tier": tier,
        "seed": int(seed),
        "level": level,
        "coverage": cov,
        "assumptions": list(getattr(mod, "ASSUMPTIONS", [])),
        "wall_s": round(wall, 2),
        "violations": len(new),
    }
    os.makedirs(os.path.join(VERIF, "evidence"), exist_ok=True)
    with open(os.path.join(VERIF, "evidence", f"{pid}.json"), "w") as f:
        json.dump(ev, f, indent=1, default=str)

    print(f"[{pid}] tier={tier} seed={seed} cases={acc.evaluations} nontrivial={len(acc.nontrivial)} "
          f"new_buckets={len(new)} known_hits={sum(hits.values())} wall={wall:.1f}s"
          + (" BUDGET-EXHAUSTED(inconclusive beyond the counted cases)" if acc.exhausted else ""))
    top = ", ".join(f"{k}={v}" for k, v in list(cov["labels"].items())[:14])
    print(f"[{pid}] labels: {top}")
    if acc.errors:
        print(f"[{pid}] HARNESS ERRORS: {acc.labels.get('harness-error', 0)}")
        for e in acc.errors[:2]:
            print(json.dumps(e["case"], default=str)[:600])
            print(e["error"][-2500:])
        if not new:
            return 2
    if new:
        return 1
    if acc.evaluations == 0:
        print(f"[{pid}] no case executed")
        return 2
    return 0
