import argparse
import os
import sys

HERE = os.path.dirname(os.path.dirname(os.path.abspath(__file__)))
sys.path.insert(0, HERE)
REPO = os.path.abspath(os.environ.get("VERIF_REPO", "/repo"))
sys.path.insert(0, REPO)


def main():
    ap = argparse.ArgumentParser()
    ap.add_argument("prop")
    ap.add_argument("--tier", default=os.environ.get("VERIF_TIER", "quick"), choices=["quick", "thorough"])
    ap.add_argument("--replay", default=None)
    a = ap.parse_args()
    try:
        import logbook

        logbook.NullHandler().push_application()
        import aldy

        if not os.path.abspath(aldy.__file__).startswith(REPO + os.sep):
            print(f"HARNESS-ERROR aldy imported from {aldy.__file__}, expected {REPO}")
            return 2
        from lib import runner
    except Exception as e:  # noqa
        import traceback

        traceback.print_exc()
        print("HARNESS-ERROR cannot import", e)
        return 2
    seed = int(os.environ.get("VERIF_SEED", "1") or 1)
    try:
        if a.replay:
            return runner.run_replay(a.prop, a.replay)
        return runner.run_property(a.prop, a.tier, seed)
    except Exception as e:  # noqa  (a harness failure is never a verdict)
        import traceback

        traceback.print_exc()
        print("HARNESS-ERROR", type(e).__name__, e)
        return 2


if __name__ == "__main__":
    sys.exit(main())
