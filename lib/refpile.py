"""R-PILE: independent CIGAR interpreter written from the SAM specification (DESIGN.md section 4).

A read is a dict {name, pos, cig: [(op, len)], seq, qual: [int], mq, flag}; op letters as in SAM.
"""
import collections

CONSUMES_REF = set("M=XDN")
CONSUMES_QUERY = set("M=XIS")
CODES = {"M": 0, "I": 1, "D": 2, "N": 3, "S": 4, "H": 5, "P": 6, "=": 7, "X": 8}

UNMAPPED, SECONDARY, QCFAIL, DUP, SUPPL, REVERSE = 0x4, 0x100, 0x200, 0x400, 0x800, 0x10


def bin_quality(q):
    """Illumina-style 8-bin table as documented in sam.py (monotone; edges 2, 10, 20, 29, 39)."""
    if q < 2:
        return int(q)
    for edge, val in ((10, 6), (20, 15), (29, 25), (39, 35)):
        if q < edge:
            return val
    return 40


def eligible(read):
    if read["flag"] & UNMAPPED or not read["cig"] or not read["seq"]:
        return False
    if read["flag"] & SUPPL:
        return False
    if any(op == "H" for op, _ in read["cig"]):
        return False
    return True


def ref_span(read):
    return read["pos"], read["pos"] + sum(n for op, n in read["cig"] if op in CONSUMES_REF)


def walk(read):
    """-> (aligned: [(ref_pos, read_base, qual)], deleted: [(ref_pos)], insertions: [(left_ref_pos, seq)],
    deletions: [(start_ref_pos, length)])."""
    p, q = read["pos"], 0
    aligned, deleted, ins, dels = [], [], [], []
    seq, qual = read["seq"], read["qual"]
    for op, n in read["cig"]:
        if op in "M=X":
            for i in range(n):
                aligned.append((p + i, seq[q + i], qual[q + i]))
            p += n
            q += n
        elif op == "D":
            dels.append((p, n))
            for i in range(n):
                deleted.append(p + i)
            p += n
        elif op == "I":
            ins.append((p - 1, seq[q:q + n]))
            q += n
        elif op == "S":
            q += n
        elif op == "N":
            p += n
        # H, P: nothing
    return aligned, deleted, ins, dels


def pile(reads, gene, multi_sites):
    """Expected per-position tables over eligible reads.
    depth[p] = aligned + deleted bases; alleles[(p, op)] = list of (mq, q) with op '_' or 'R>B' or MNP op (count only);
    """
    depth = collections.Counter()
    obs = collections.defaultdict(list)  # (p, op) -> [(mq, q)]
    dele = collections.Counter()
    for r in reads:
        if not eligible(r):
            continue
        aligned, deleted, ins, dels = walk(r)
        local = {}
        for p, b, q in aligned:
            depth[p] += 1
            ref = gene[p] if p in gene else None
            if ref is not None and ref != "N" and b != ref:
                local[p] = (f"{ref}>{b}", q)
            else:
                local[p] = ("_", q)
        for p in deleted:
            depth[p] += 1
            dele[p] += 1
        # complete catalogued multi-nucleotide substitutions: counted once, under that variant, at the first position
        merged = set()
        for mp, mop in multi_sites.items():
            l, rr = mop.split(">")
            parts = [(mp + i, f"{l[i]}>{rr[i]}") for i in range(len(l)) if l[i] != "."]
            if all(local.get(pp, (None,))[0] == po for pp, po in parts) and not any(pp in merged for pp, _ in parts):
                qs = [local[pp][1] for pp, _ in parts]
                obs[(mp, mop)].append((r["mq"], qs))
                for pp, po in parts:
                    merged.add(pp)
                    if pp != mp:
                        obs[(pp, "_")].append((r["mq"], local[pp][1]))
        for p, (op, q) in local.items():
            if p in merged:
                continue
            obs[(p, op)].append((r["mq"], q))
    return depth, obs, dele


def phase_labels(read, gene, multi_sites):
    """{ref_pos: set of labels the read shows at that position} (see C06: phase clause)."""
    aligned, deleted, ins, dels = walk(read)
    out = collections.defaultdict(set)
    local = {}
    for p, b, q in aligned:
        ref = gene[p] if p in gene else None
        if ref is not None and ref != "N" and b != ref:
            out[p].add(f"{ref}>{b}")
            local[p] = f"{ref}>{b}"
        else:
            out[p].add("_")
            local[p] = "_"
    for p, n in dels:
        out[p].add("del" + gene[p:p + n])
    for p, s in ins:
        out[p].add("ins" + s)
    for mp, mop in multi_sites.items():
        l, rr = mop.split(">")
        parts = [(mp + i, f"{l[i]}>{rr[i]}") for i in range(len(l)) if l[i] != "."]
        if all(local.get(pp) == po for pp, po in parts):
            out[mp].add(mop)
    return out, {p for p, _, _ in aligned}
