"""G-DB: generated, internally consistent gene databases (DESIGN.md section 3).

A *spec* is a JSON-able dict drawn by Hypothesis (small ints / flags, shrinkable); `build(spec)` expands it
deterministically (bulk randomness = random.Random(spec["seed"])) into the YAML structure aldy.gene.Gene
reads, plus `meta`: the ground truth in RefSeq terms (resolved variant sites, allele -> site list,
structural kind per allele) that oracles use without going through Gene.
"""
import random

import yaml
from hypothesis import strategies as st

SENSE = [a + b + c for a in "ACGT" for b in "ACGT" for c in "ACGT" if a + b + c not in ("TAA", "TAG", "TGA")]
COMP = {"A": "T", "C": "G", "G": "C", "T": "A", "N": "N", ".": "."}


def revcomp(s):
    return "".join(COMP[c] for c in reversed(s))


# ---------------------------------------------------------------------------------------------- layout
def layout(spec):
    """RefSeq layout: list of (name, start0, end0) in RefSeq order, exons list (1-based [s,e) as in YAML)."""
    regs = []
    p = 0
    regs.append(("up", p, p + spec["up"]))
    p += spec["up"]
    n = len(spec["exons"])
    exons = []
    for i in range(n):
        regs.append((f"e{i + 1}", p, p + spec["exons"][i]))
        exons.append([p + 1, p + spec["exons"][i] + 1])
        p += spec["exons"][i]
        if i < n - 1:
            regs.append((f"i{i + 1}", p, p + spec["introns"][i]))
            p += spec["introns"][i]
    regs.append(("down", p, p + spec["down"]))
    p += spec["down"]
    return regs, exons, p


def make_seq(spec, regs, L):
    rng = random.Random(spec["seed"])
    s = [rng.choice("ACGT") for _ in range(L)]
    if spec.get("repeats"):
        # sprinkle short tandem repeats so that indels can land in repeat context
        for _ in range(L // 60):
            unit = "".join(rng.choice("ACGT") for _ in range(rng.choice([1, 1, 2, 3])))
            k = rng.randrange(3, 7)
            p = rng.randrange(5, L - len(unit) * k - 5)
            for j, c in enumerate(unit * k):
                s[p + j] = c
    expos = [i for (nm, a, b) in regs if nm[0] == "e" and nm[1:].isdigit() for i in range(a, b)]
    for j in range(0, len(expos) - 2, 3):
        c = "ATG" if j == 0 else rng.choice(SENSE)
        for t in range(3):
            s[expos[j + t]] = c[t]
    return "".join(s)


def make_mapping(spec, build, regs, L):
    """-> (yaml mapping list, ref0->chr0 dict, chr0 span (lo, hi))."""
    b = spec["builds"][build]
    strand = b["strand"]
    start = b["start"]  # 1-based genome start of the locus
    cig = [("M", L)]
    gap = b.get("gap")
    introns = [(a, e) for (nm, a, e) in regs if nm[0] == "i"]
    if gap and introns:
        # RefSeq-only bases (I) and genome-only bases (D) strictly inside introns
        (a1, e1) = introns[gap[0] % len(introns)]
        (a2, e2) = introns[gap[1] % len(introns)]
        ilen, dlen = gap[2], gap[3]
        pieces = []
        if e1 - a1 >= ilen + 12:
            pieces.append(("I", a1 + 6 + gap[4] % (e1 - a1 - ilen - 11), ilen))
        if e2 - a2 >= 14:
            pd = a2 + 6 + gap[5] % (e2 - a2 - 12)
            if not pieces or abs(pd - pieces[0][1]) > ilen + 3:
                pieces.append(("D", pd, dlen))
        pieces.sort(key=lambda x: x[1])
        cig = []
        cur = 0
        for kind, at, ln in pieces:
            cig.append(("M", at - cur))
            cig.append((kind, ln))
            cur = at + (ln if kind == "I" else 0)
        cig.append(("M", L - cur))
        if strand == "-":
            cig = cig[::-1]
    r2c = {}
    pr = 0 if strand == "+" else L - 1
    pc = start - 1
    stp = 1 if strand == "+" else -1
    for op, sz in cig:
        if op == "M":
            for i in range(sz):
                r2c[pr + i * stp] = pc + i
            pc += sz
            pr += sz * stp
        elif op == "I":
            pr += sz * stp
        else:
            pc += sz
    end = pc + 1
    return [b["chr"], start, end, strand, " ".join(f"{o}{n}" for o, n in cig)], r2c, (start - 1, pc)


def region_coords(spec, build, regs, r2c):
    out = {}
    poff = spec["builds"][build]["poff"] if spec["pseudo"] else None
    for nm, a, e in regs:
        if nm[0] == "i":
            continue
        if e <= a:
            continue
        ends = sorted([r2c[a], r2c[e - 1]])
        row = [ends[0] + 1, ends[1] + 2]
        if poff is not None:
            row += [row[0] + poff, row[1] + poff]
        out[nm] = row
    # optional extra region 3' of the gene ("pce"): zero length in the gene, real length in the pseudogene
    if spec.get("pce") and spec["pseudo"]:
        strand = spec["builds"][build]["strand"]
        plen = spec["pce"]
        dn = out["down"]
        if strand == "+":
            out["pce"] = [dn[1], dn[1], dn[3], dn[3] + plen]
        else:
            out["pce"] = [dn[0], dn[0], dn[2] - plen, dn[2]]
    return out


# ---------------------------------------------------------------------------------------------- variants
def resolve_sites(spec, regs, seq, blocked):
    """Turn site descriptors into concrete RefSeq variants [(pos1, op, func, kind)] with disjoint footprints."""
    rng = random.Random(spec["seed"] ^ 0x5EED)
    L = len(seq)
    sites = []
    taken = []  # (lo, hi) 0-based footprints incl. margin
    margin = spec.get("site_gap", 12)
    named = [(nm, a, e) for nm, a, e in regs if e - a > 2 * 8]
    for d in spec["sites"]:
        ridx, off, kind, ln, func, aseed = d
        nm, a, e = named[ridx % len(named)]
        span = e - a - 16
        if span <= 0:
            continue
        placed = None
        for attempt in range(12):
            p0 = a + 8 + (off + attempt * 7) % span  # 0-based RefSeq index of first affected base
            r2 = random.Random((aseed << 4) ^ attempt)
            if kind == "snp":
                ref = seq[p0]
                alt = r2.choice([c for c in "ACGT" if c != ref])
                op, foot = f"{ref}>{alt}", (p0, p0 + 1)
            elif kind == "mnp":
                k = 2 + ln % 2
                refs = seq[p0:p0 + k]
                alts = "".join(r2.choice([c for c in "ACGT" if c != x]) for x in refs)
                if k == 3 and aseed % 2:
                    op = f"{refs[0]}.{refs[2]}>{alts[0]}.{alts[2]}"
                else:
                    op = f"{refs}>{alts}"
                foot = (p0, p0 + k)
            elif kind == "del":
                k = 1 + ln % 6
                dl = seq[p0:p0 + k]
                if not spec.get("repeats") and (seq[p0 - 1] == dl[-1] or seq[p0 + k] == dl[0]):
                    continue  # shiftable deletion: only in repeat mode
                op, foot = f"del{dl}", (p0, p0 + k)
            elif kind == "ins":
                k = 1 + ln % 7
                ins = "".join(r2.choice("ACGT") for _ in range(k))
                # inserted AFTER RefSeq base p0 (1-based pos p0+1)
                if not spec.get("repeats") and (ins[0] == seq[p0 + 1] or ins[-1] == seq[p0]):
                    continue
                op, foot = f"ins{ins}", (p0, p0 + 2)
            elif kind == "delins":
                k = 2 + ln % 3
                dl = seq[p0:p0 + k]
                ins = "".join(r2.choice("ACGT") for _ in range(1 + aseed % 3))
                if ins[0] == dl[0] or ins[-1] == dl[-1]:
                    continue
                op, foot = f"del{dl}ins{ins}", (p0, p0 + k)
            else:
                raise ValueError(kind)
            lo, hi = foot[0] - margin, foot[1] + margin
            if lo < 4 or hi > L - 4:
                continue
            if any(lo < th and tl < hi for tl, th in taken):
                continue
            if any(lo < bh and bl < hi for bl, bh in blocked):
                continue
            # keep the footprint inside one region
            if not (a <= foot[0] and foot[1] <= e):
                continue
            placed = (p0 + 1, op, bool(func), kind, nm)
            taken.append((lo, hi))
            break
        if placed:
            sites.append(placed)
    # multi-allelic sites: a second substitution at the position of an existing SNP
    for t in spec.get("twins", []):
        if not sites:
            break
        p1, op, func, kind, nm = sites[t % len(sites)]
        if kind != "snp" or any(q == p1 and o != op for q, o, *_ in sites):
            continue
        alt = [c for c in "ACGT" if c not in (op[0], op[2])][t % 2]
        sites.append((p1, f"{op[0]}>{alt}", bool((t // 2) % 2), "snp", nm))
    # echo insertions: a second catalogued insertion 26-60 bases 3' of an existing one, in the same region, whose inserted
    # bases are the same as / a prefix of / a suffix of the first one's, carried by every allele that carries the first
    sites = Sites(sites)
    for t in spec.get("echo", []):
        cand = [i for i, x in enumerate(sites) if x[3] == "ins" and i not in sites.links]
        if not cand:
            break
        i = cand[t % len(cand)]
        p1, op, func, kind, nm = sites[i]
        ins = op[3:]
        mode = (t // 7) % 3
        e_ins = ins if mode == 0 or len(ins) == 1 else (ins[:max(1, len(ins) // 2)] if mode == 1 else ins[-max(1, len(ins) // 2):])
        a, e = next((a, e) for n2, a, e in regs if n2 == nm)
        for delta in range(26 + t % 20, 70):
            p0 = p1 - 1 + delta
            if p0 + 2 >= e or p0 + 2 >= L - 4:
                break
            if not spec.get("repeats") and (e_ins[0] == seq[p0 + 1] or e_ins[-1] == seq[p0]):
                continue
            lo, hi = p0 - margin, p0 + 2 + margin
            if any(lo < th and tl < hi for tl, th in taken) or any(lo < bh and bl < hi for bl, bh in blocked):
                continue
            taken.append((lo, hi))
            sites.links[i] = len(sites)
            sites.append((p0 + 1, "ins" + e_ins, bool(t % 2), "ins", nm))
            break
    # edge sites: a substitution at the very first / last base of the RefSeq (= an end of the mapped span on the genome),
    # carried by every allele that carries the first site
    for t in spec.get("edge", []):
        p0 = 0 if t % 2 == 0 else L - 1
        if any(x[0] == p0 + 1 for x in sites) or 0 in sites.links or not sites:
            continue
        nm = next((n2 for n2, a, e in regs if a <= p0 < e), None)
        if nm is None or any(bl <= p0 < bh for bl, bh in blocked):
            continue
        ref = seq[p0]
        alt = [c for c in "ACGT" if c != ref][(t // 4) % 3]
        sites.links[0] = len(sites)
        sites.append((p0 + 1, f"{ref}>{alt}", bool((t // 2) % 2), "snp", nm))
    return sites


class Sites(list):
    """Concrete sites; links = {site index: index of the site every carrier of it also carries}."""

    def __init__(self, *a):
        super().__init__(*a)
        self.links = {}


# ---------------------------------------------------------------------------------------------- build
def build(spec):
    """-> (yaml_dict, meta)."""
    regs, exons, L = layout(spec)
    seq = make_seq(spec, regs, L)
    name = spec.get("name", "GA")
    pname = name + "P"
    maps, r2cs, spans, regions = {}, {}, {}, {}
    blocked = []
    for build_ in ("hg19", "hg38"):
        m, r2c, span = make_mapping(spec, build_, regs, L)
        maps[build_], r2cs[build_], spans[build_] = m, r2c, span
        regions[build_] = region_coords(spec, build_, regs, r2c)
        if spec.get("region_order"):
            # the order in which a build's block lists its region keys carries no meaning: list them in a drawn order
            keys_ = list(regions[build_])
            random.Random(spec["region_order"][build_]).shuffle(keys_)
            regions[build_] = {k: regions[build_][k] for k in keys_}
        # RefSeq intervals next to alignment gaps are blocked for variants (windows must be single-block)
        keys = sorted(r2c)
        for i in range(len(keys) - 1):
            if keys[i + 1] != keys[i] + 1 or abs(r2c[keys[i + 1]] - r2c[keys[i]]) != 1:
                blocked.append((keys[i] - 10, keys[i + 1] + 10))
    sites = resolve_sites(spec, regs, seq, blocked)
    region_of = {}
    for nm, a, e in regs:
        for i in range(a, e):
            region_of[i] = nm
    order = [nm for nm, a, e in regs]  # 5'->3' in RefSeq orientation
    if spec.get("pce") and spec["pseudo"]:
        order.append("pce")
    rank = {nm: i for i, nm in enumerate(order)}

    alleles = {}
    truth = {}  # allele name -> {"sites": [site idx], "sv": kind tuple}
    ycore = {}

    def entry(si):
        p, op, func, kind, rnm = sites[si]
        e = [p, op, f"rs{1000 + si}" if (si % 3) else "-"]
        if func:
            e.append(f"fx{si}")
        return e

    nsites = max(1, len(sites))
    # star-one
    first = "1.001" if not spec.get("unpadded") else f"1.{1 + spec['unpadded']}"
    alleles[f"{name}*{first}"] = {"mutations": []}
    truth[first] = {"sites": [], "sv": None}
    major_of = {(None, ()): 1}
    minor_count = {1: 1}
    next_major = [2]

    def retained(sv, rnm):
        if sv is None:
            return True
        if sv[0] == "left":
            return rank[rnm] >= rank[sv[1]]
        if sv[0] == "right":
            return rank[rnm] < rank[sv[1]]
        if sv[0] == "custom":
            return rnm not in sv[1]
        return False

    ncoll = spec.get("collide", 0)
    fsites = [i for i, x in enumerate(sites) if x[2]]
    for ad in spec["alleles"]:
        if ncoll and ad.get("sv") is None:
            # distinct core sets where possible, so that the groups really differ
            extra_core = [fsites[(ncoll + k) % len(fsites)] for k in range(1 + ncoll % 2)] if fsites else []
            ad = dict(ad, force_major=2, label="Z", sites=list(ad["sites"]) + extra_core)
            ncoll -= 1
        sv = ad.get("sv")
        if sv is not None:
            sv = tuple(sv) if not isinstance(sv, str) else (sv,)
            if sv[0] in ("left", "right") and not spec["pseudo"]:
                continue
            if sv[0] in ("left", "right"):
                # break region must be a named region other than the first
                cand = [nm for nm in order[1:] if nm != "pce"]
                sv = (sv[0], cand[int(sv[1]) % len(cand)])
            if sv[0] == "custom":
                cand = [nm for nm in order if nm != "pce"]
                sv = ("custom", tuple(sorted({cand[int(x) % len(cand)] for x in sv[1]})))
        idx = sorted({i % nsites for i in ad["sites"]}) if sites else []
        idx = sorted(set(idx) | {sites.links[i] for i in idx if i in getattr(sites, "links", {})})
        if sv is not None and sv[0] == "del":
            idx = []
        # an allele only carries variants in regions its structure retains, and one variant per position
        if not (spec.get("keep_lost") and sv is not None and sv[0] in ("left", "right")):
            # (stress option keep_lost: a database fusion allele may list variants in the part of the gene it does not retain)
            idx = [i for i in idx if retained(sv, sites[i][4])]
        seen_pos = set()
        uniq_idx = []
        for i in idx:
            if sites[i][0] not in seen_pos:
                seen_pos.add(sites[i][0])
                uniq_idx.append(i)
        idx = uniq_idx
        core = tuple(i for i in idx if sites[i][2])
        key = (sv, core)
        if key == (None, ()) and not idx:
            continue  # would duplicate *1.001
        if key not in major_of:
            major_of[key] = next_major[0]
            next_major[0] += 1
            minor_count[major_of[key]] = 0
        mj = major_of[key]
        if ad.get("force_major") is not None:
            # stress mode: several different groups filed under one number AND one label (n-way name collision)
            mj = ad["force_major"]
            minor_count.setdefault(mj, 0)
        elif ad.get("as") is not None and next_major[0] > 2:
            # stress mode: file the allele under another group's number (name-prefix collision)
            mj = 1 + ad["as"] % (next_major[0] - 1)
            minor_count.setdefault(mj, 0)
        # skip exact duplicates unless stress mode asks for them
        dup = any(t["sites"] == idx and t["sv"] == sv for t in truth.values())
        if dup and not ad.get("dup"):
            continue
        minor_count[mj] += 1
        if spec.get("unpadded"):
            # minor numbers without zero padding, starting near 9 -> 10 (natural order differs from string order)
            nm = f"{mj}.{minor_count[mj] + spec['unpadded']}"
        else:
            nm = f"{mj}.{minor_count[mj]:03d}"
        muts = [entry(i) for i in idx]
        if sv is not None:
            if sv[0] == "del":
                muts = [[name, "deletion"]]
            elif sv[0] == "left":
                muts = [[pname, sv[1] + "-"]] + muts
            elif sv[0] == "right":
                muts = [[pname, sv[1] + "+"]] + muts
            elif sv[0] == "custom":
                muts = [[name, "deletion:" + ",".join(sv[1])]] + muts
        y = {"mutations": muts}
        if ad.get("label"):
            y["label"] = f"{name}*{mj}{ad['label']}"
        alleles[f"{name}*{nm}"] = y
        truth[nm] = {"sites": idx, "sv": sv}
    if spec.get("random_sites"):
        # variants that "can occur in any allele"; with orphan_core also functional ones that belong to no allele
        alleles["random"] = [entry(i % nsites) for i in spec["random_sites"] if sites and (spec.get("orphan_core") or not sites[i % nsites][2])]
        if not alleles["random"]:
            del alleles["random"]

    structure = {"genes": [name] + ([pname] if spec["pseudo"] else []), "regions": regions,
                 "cn_regions": [r for r in spec["cn_regions"] if r in order and r != "pce"] + (["pce"] if spec.get("pce") and spec["pseudo"] and spec.get("pce_cn") else [])}
    if not structure["cn_regions"]:
        structure["cn_regions"] = ["e1"]
    if spec.get("tandems"):
        majors = sorted({int(k.split(".")[0]) for k in truth})
        tds = [[str(majors[a % len(majors)]), str(majors[b % len(majors)])] for a, b in spec["tandems"]]
        tds = [t for t in tds if t[0] != t[1]]  # a tandem rule names two different alleles
        if tds:
            structure["tandems"] = tds
    db = {
        "name": name, "version": "gen-1", "generated": "2026-01-01",
        "alleles": alleles, "structure": structure,
        "reference": {"name": "NG_GEN", "mappings": maps, "exons": exons, "seq": seq},
    }
    meta = {"seq": seq, "L": L, "regs": regs, "order": order, "sites": sites, "truth": truth, "r2c": r2cs, "spans": spans,
            "exons": exons, "name": name}
    return db, meta


def write(spec, path):
    db, meta = build(spec)
    with open(path, "w") as f:
        yaml.dump(db, f, default_flow_style=None, sort_keys=False, width=100000)
    return meta


# ---------------------------------------------------------------------------------------------- strategies
KINDS_ALL = ["snp", "snp", "snp", "mnp", "ins", "del", "delins"]
KINDS_READS = ["snp", "snp", "snp", "ins", "del", "mnp"]


@st.composite
def db_specs(draw, kinds=KINDS_READS, max_sites=10, max_alleles=9, sv=True, pseudo=None, dual_opposite=None, gaps=True,
             chrs=("7",), stress=False, small=False, name="GA", force_sv=False, twins=False, orphan_core=False, echo=False, keep_lost=False, edge=False, many_exons=False):
    n_ex = draw(st.integers(2, 3 if small else 4))
    elen = st.sampled_from([30, 45, 60, 90] if small else [30, 60, 90, 120, 150])
    ilen = st.integers(40, 90) if small else st.integers(40, 220)
    if many_exons and draw(st.integers(0, 3)) == 0:
        # 10-12 exons: region names of which one is contained in another (e1 / e10, i1 / i11)
        n_ex = draw(st.integers(10, 12))
        elen, ilen = st.sampled_from([30, 45]), st.integers(40, 60)
    spec = {
        "seed": draw(st.integers(0, 2 ** 30)),
        "name": name,
        "up": draw(st.integers(40, 120 if small else 250)),
        "down": draw(st.integers(40, 120 if small else 250)),
        "exons": [draw(elen) for _ in range(n_ex)],
        "introns": [draw(ilen) for _ in range(n_ex - 1)],
    }
    spec["pseudo"] = int(draw(st.booleans()) if pseudo is None else pseudo)
    s19 = draw(st.sampled_from("+-"))
    if dual_opposite is None:
        s38 = draw(st.sampled_from("+-"))
    else:
        s38 = ({"+": "-", "-": "+"}[s19]) if dual_opposite else s19
    chrom = draw(st.sampled_from(list(chrs)))
    builds = {}
    for b, s in (("hg19", s19), ("hg38", s38)):
        builds[b] = {"chr": chrom, "start": draw(st.integers(5000, 40000)), "strand": s,
                     "poff": draw(st.integers(4000, 9000)),
                     "gap": draw(st.none() | st.tuples(st.integers(0, 3), st.integers(0, 3), st.integers(1, 4), st.integers(1, 4),
                                                       st.integers(0, 200), st.integers(0, 200)).map(list)) if gaps else None}
    spec["builds"] = builds
    regnames = ["up"] + [x for i in range(n_ex) for x in ([f"e{i + 1}"] + ([f"i{i + 1}"] if i < n_ex - 1 else []))] + ["down"]
    inner = [r for r in regnames if r not in ("up", "down")]
    # copy-number regions: at least a third of all regions (shipped databases with structural alleles use 40-80 %;
    # aldy's "coverage too low" guard compares the depth over these regions with whole-gene configuration sums)
    need = max(2, -(-len(regnames) // 3))
    drop = draw(st.lists(st.sampled_from(inner), max_size=max(0, len(inner) - need), unique=True)) if not small else []
    spec["cn_regions"] = [r for r in inner if r not in drop]
    if spec["pseudo"] and draw(st.integers(0, 5)) == 0:
        spec["pce"] = draw(st.integers(20, 60))
        spec["pce_cn"] = draw(st.booleans())
    if draw(st.integers(0, 7)) == 0:
        spec["repeats"] = True
    site = st.tuples(st.integers(0, 12), st.integers(0, 400), st.sampled_from(kinds), st.integers(0, 11), st.booleans(),
                     st.integers(0, 10 ** 6)).map(list)
    spec["sites"] = draw(st.lists(site, min_size=2, max_size=max_sites))
    ns = len(spec["sites"])
    if twins:
        spec["twins"] = draw(st.lists(st.integers(0, 40), min_size=1, max_size=2))
        ns += len(spec["twins"])
    if edge and draw(st.integers(0, 2)) == 0:
        spec["edge"] = [draw(st.integers(0, 11))]
    if echo and any(x[2] == "ins" for x in spec["sites"]) and draw(st.integers(0, 1)) == 0:
        spec["echo"] = [draw(st.integers(0, 400))]
    plain = st.builds(lambda s, lab, dup, as_: {"sites": s, **({"label": lab} if lab else {}), **({"dup": True} if dup else {}),
                                                **({"as": as_} if as_ is not None else {})},
                      st.lists(st.integers(0, ns - 1), min_size=1, max_size=4), st.sampled_from(["", "", "A", "B"]) if stress else st.just(""),
                      st.booleans() if stress else st.just(False),
                      (st.none() | st.none() | st.integers(0, 8)) if stress else st.none())
    alls = draw(st.lists(plain, min_size=1, max_size=max_alleles))
    if sv:
        svs = []
        if force_sv or draw(st.booleans()):
            svs.append({"sites": [], "sv": "del"})
        if spec["pseudo"]:
            for kind in ("left", "right"):
                k = draw(st.integers(1 if force_sv and kind == "left" else 0, 2 if stress else 1))
                for _ in range(k):
                    svs.append({"sites": draw(st.lists(st.integers(0, ns - 1), max_size=2)) if draw(st.booleans()) else [],
                                "sv": [kind, draw(st.integers(0, 8))]})
        if stress and draw(st.booleans()):
            first_custom = draw(st.lists(st.integers(0, 30), min_size=1, max_size=2))
            if n_ex >= 10 and draw(st.booleans()):
                # regions e10 / i10 / e11 (their names contain the names e1 / i1)
                first_custom = draw(st.lists(st.sampled_from([19, 20, 21][:1 + 2 * (n_ex >= 11)]), min_size=1, max_size=2, unique=True))
            svs.append({"sites": draw(st.lists(st.integers(0, ns - 1), max_size=2)), "sv": ["custom", first_custom]})
            if draw(st.booleans()):
                # a second partial deletion that removes as many regions as the first one, elsewhere
                shift = draw(st.integers(1, 7))
                svs.append({"sites": draw(st.lists(st.integers(0, ns - 1), max_size=2)), "sv": ["custom", [x + shift for x in first_custom]]})
        alls += svs
    spec["alleles"] = alls
    if orphan_core:
        spec["orphan_core"] = True
        spec["random_sites"] = draw(st.lists(st.integers(0, ns - 1), min_size=1, max_size=3))
    elif draw(st.integers(0, 3)) == 0:
        spec["random_sites"] = draw(st.lists(st.integers(0, ns - 1), min_size=1, max_size=2))
    if stress:
        if draw(st.integers(0, 1)) == 0:
            spec["collide"] = draw(st.integers(4, 6))
        if draw(st.integers(0, 2)) == 0:
            spec["unpadded"] = draw(st.integers(6, 8))
    if keep_lost and draw(st.integers(0, 1)) == 0:
        spec["keep_lost"] = True
        # a database allele of a bare left fusion that repeats a plain allele's variants and adds one more (which may lie
        # in the part of the gene the fusion does not retain)
        bare = [a for a in alls if a.get("sv") and a["sv"][0] == "left" and not a["sites"]]
        plain_ = [a for a in alls if not a.get("sv")]
        if bare and plain_:
            src = plain_[draw(st.integers(0, len(plain_) - 1))]
            spec["alleles"] = alls + [{"sites": list(src["sites"]) + [draw(st.integers(0, ns - 1))], "sv": list(bare[0]["sv"])}]
    if draw(st.integers(0, 2)) == 0:
        spec["region_order"] = {"hg19": draw(st.integers(0, 1000)), "hg38": draw(st.integers(0, 1000))}
    if draw(st.integers(0, 2)) == 0:
        spec["tandems"] = draw(st.lists(st.tuples(st.integers(0, 6), st.integers(0, 6)).map(list), min_size=1, max_size=2))
    return spec
