"""Recording wrappers around aldy's stage functions (module attributes; no repository hook needed)."""
import contextlib
import copy


@contextlib.contextmanager
def stages():
    """Records calls of cn.solve_cn_model / cn.estimate_cn / major.estimate_major / minor.estimate_minor made
    during the block (genotype.py calls all of them through their modules)."""
    import aldy.cn
    import aldy.major
    import aldy.minor

    rec = {"cn_model": [], "cn": [], "major": [], "minor": []}
    rec["original"] = {"estimate_major": aldy.major.estimate_major}
    o_solve, o_cn, o_major, o_minor = aldy.cn.solve_cn_model, aldy.cn.estimate_cn, aldy.major.estimate_major, aldy.minor.estimate_minor

    def solve(gene, profile, cn_configs, max_cn, region_coverage, solver, debug=None, fusion_support=None):
        res = o_solve(gene, profile, cn_configs, max_cn, region_coverage, solver, debug, fusion_support)
        rec["cn_model"].append({"configs": cn_configs, "max_cn": max_cn, "region_cov": dict(region_coverage),
                                "fusion_support": fusion_support,
                                "result": [(dict(s.solution), s.score) for s in res]})
        return res

    def est_cn(gene, profile, coverage, solver, debug=None):
        res = o_cn(gene, profile, coverage, solver=solver, debug=debug)
        rec["cn"].append({"coverage": coverage, "result": [(dict(s.solution), s.score) for s in res], "objects": list(res), "gene": gene})
        return res

    def est_major(gene, coverage, cn_solution, solver, identifier=0, debug=None):
        res = o_major(gene, coverage, cn_solution, solver, identifier, debug)
        rec["major"].append({"cn": dict(cn_solution.solution), "cn_score": cn_solution.score,
                             "result": [({a.major: n for a, n in s.solution.items()}, list(s.added), s.score) for s in res]})
        return res

    def est_minor(gene, coverage, major_sols, solver, max_solutions=1, novel=False):
        inp = [({a.major: n for a, n in s.solution.items()}, list(s.added), s.score, dict(s.cn_solution.solution), s.cn_solution.score)
               for s in major_sols]
        res = o_minor(gene, coverage, major_sols, solver, max_solutions, novel)
        rec["minor_objects"] = {"gene": gene, "coverage": coverage, "majors": list(major_sols), "estimate_minor": o_minor}
        rec["minor"].append({"input": inp, "result": [
            ([(a.major, a.minor, list(a.added), list(a.missing)) for a in s.solution], s.score,
             {a.major: n for a, n in s.major_solution.solution.items()}, list(s.major_solution.added),
             dict(s.major_solution.cn_solution.solution), s.major_solution.cn_solution.score, s.major_solution.score) for s in res]})
        return res

    aldy.cn.solve_cn_model, aldy.cn.estimate_cn = solve, est_cn
    aldy.major.estimate_major, aldy.minor.estimate_minor = est_major, est_minor
    try:
        yield rec
    finally:
        aldy.cn.solve_cn_model, aldy.cn.estimate_cn = o_solve, o_cn
        aldy.major.estimate_major, aldy.minor.estimate_minor = o_major, o_minor


@contextlib.contextmanager
def minor_models(rec):
    """Additionally records the raw results of minor.solve_minor_model (before estimate_minor adds the carry-over)."""
    import aldy.minor

    o = aldy.minor.solve_minor_model
    rec["minor_model"] = []

    def solve(gene, coverage, major_sol, alleles_list, mutations, solver, max_solutions=1):
        res = o(gene, coverage, major_sol, alleles_list, mutations, solver, max_solutions)
        rec["minor_model"].append({
            "major": {a.major: n for a, n in major_sol.solution.items()}, "added": list(major_sol.added),
            "cn": dict(major_sol.cn_solution.solution), "major_score": major_sol.score,
            "result": [([(a.major, a.minor, list(a.added), list(a.missing)) for a in s.solution], s.score) for s in res]})
        return res

    aldy.minor.solve_minor_model = solve
    try:
        yield rec
    finally:
        aldy.minor.solve_minor_model = o
