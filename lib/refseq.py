"""R-SEQ: 'apply a variant' in RefSeq terms (as the database writes it) and in genome terms (as aldy loads it),
plus an independent reader of the alignment string (DESIGN.md section 4)."""

COMP = {"A": "T", "C": "G", "G": "C", "T": "A", "N": "N", ".": "."}

CODON = {}
_b = "TCAG"
_aa = "FFLLSSSSYYXXCCXWLLLLPPPPHHQQRRRRIIIMTTTTNNKKSSRRVVVVAAAADDEEGGGG"
for i, a in enumerate(_b):
    for j, b in enumerate(_b):
        for k, c in enumerate(_b):
            CODON[a + b + c] = _aa[16 * i + 4 * j + k]


def revcomp(s):
    return "".join(COMP[c] for c in reversed(s))


def translate(dna):
    return "".join(CODON[dna[i:i + 3]] for i in range(0, len(dna) - len(dna) % 3, 3))


class Mismatch(Exception):
    pass


def apply_refseq(seq, pos1, op):
    """HGVS-like semantics on the RefSeq string: X>Y at 1-based pos; delXYZ removes pos..; insXYZ inserts AFTER pos;
    delXinsY replaces."""
    i = pos1 - 1
    if ">" in op:
        l, r = op.split(">")
        s = list(seq)
        for k, (a, b) in enumerate(zip(l, r)):
            if a != ".":
                if s[i + k] != a:
                    raise Mismatch(f"ref allele {a} != {s[i + k]} at {pos1 + k}")
                s[i + k] = b
        return "".join(s)
    if op.startswith("ins"):
        return seq[:i + 1] + op[3:] + seq[i + 1:]
    if "ins" in op[3:]:
        d, ins = op[3:].split("ins")
        if seq[i:i + len(d)] != d:
            raise Mismatch(f"deleted {d} != {seq[i:i + len(d)]}")
        return seq[:i] + ins + seq[i + len(d):]
    d = op[3:]
    if seq[i:i + len(d)] != d:
        raise Mismatch(f"deleted {d} != {seq[i:i + len(d)]}")
    return seq[:i] + seq[i + len(d):]


def apply_genome(w, i, op):
    """aldy's loaded semantics on a genome-oriented string w at 0-based offset i: substitution at i; deletion starting
    at i; insertion AFTER i; deletion-insertion at i."""
    if ">" in op:
        l, r = op.split(">")
        s = list(w)
        for k, (a, b) in enumerate(zip(l, r)):
            if a != ".":
                if s[i + k] != a:
                    raise Mismatch(f"genome ref allele {a} != {s[i + k]}")
                s[i + k] = b
        return "".join(s)
    if op.startswith("ins"):
        return w[:i + 1] + op[3:] + w[i + 1:]
    if "ins" in op[3:]:
        d, ins = op[3:].split("ins")
        if w[i:i + len(d)] != d:
            raise Mismatch(f"genome deleted {d} != {w[i:i + len(d)]}")
        return w[:i] + ins + w[i + len(d):]
    d = op[3:]
    if w[i:i + len(d)] != d:
        raise Mismatch(f"genome deleted {d} != {w[i:i + len(d)]}")
    return w[:i] + w[i + len(d):]


def footprint(pos1, op):
    """0-based RefSeq interval [a, b) a variant touches (an insertion touches the two flanking bases)."""
    i = pos1 - 1
    if ">" in op:
        return i, i + len(op.split(">")[0])
    if op.startswith("ins"):
        return i, i + 2
    d = op[3:].split("ins")[0]
    return i, i + len(d)


def parse_mapping(mapping, L):
    """Independent reading of ['chr', start, end, strand, 'M.. I.. D..'] -> (ref0 -> chr0 dict, blocks [(r_lo, r_hi)])."""
    chrom, start, end, strand, cigar = mapping
    st = 1 if strand == "+" else -1
    pr = 0 if st > 0 else L - 1
    pc = start - 1
    r2c = {}
    blocks = []
    for tok in cigar.split():
        op, n = tok[0], int(tok[1:])
        if op == "M":
            rs = [pr + k * st for k in range(n)]
            for k, r in enumerate(rs):
                r2c[r] = pc + k
            blocks.append((min(rs), max(rs) + 1))
            pc += n
            pr += n * st
        elif op == "I":
            pr += n * st
        elif op == "D":
            pc += n
        else:
            raise ValueError(tok)
    return r2c, blocks, st
