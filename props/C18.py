"""C18 - model parameters take the values the user gave, through every route.

Routes: cli (`aldy genotype ... --param k=v` through aldy.__main__.main), api (genotype(**{k: v})),
options (options: section of a profile file read by Profile.load), roundtrip (parameters given to
Profile.get_sam_profile_data -> yaml.dump as `aldy profile` prints it -> Profile.load), clifile
(cli --param on top of a profile file whose options section sets the same parameter: explicit wins).
Oracle: a typed-value model written from the Profile docstrings (not from Profile.update).
"""
import io
import os
import sys
import tempfile
import contextlib

import yaml
from hypothesis import strategies as st

from lib.runner import Result, V, scratch

ID = "C18"
RULE = ("case = (route, parameter name taken from a fresh Profile's attributes, value, spelling); the boolean x "
        "spelling x route matrix is enumerated exhaustively, numeric/string values and multi-parameter "
        "combinations are drawn by Hypothesis; non-trivial = the spelling differs from str(native value) or "
        "the route is not the plain API call; distinct = distinct case JSON")
ASSUMPTIONS = [
    "the parameter set is whatever a fresh aldy.profile.Profile('x') exposes minus name/data/cn_region/cn_solution/neutral_value",
    "integers 1/0 for a boolean parameter may either be accepted as the matching boolean or rejected",
    "non-finite floats and non-integral native floats for integer parameters are not generated (the statement does not define them)",
]
EXPLANATION = "exhaustive boolean matrix + generated numeric/string/multi-parameter cases over 5 routes"

NON_PARAMS = {"name", "data", "cn_region", "cn_solution", "neutral_value"}
# the documented type of every model parameter (docstrings of aldy/profile.py: "Default: 21.0", "Default: 2", ...), written down here
# so that the oracle does not follow a default literal that silently changes type in the code
DOCUMENTED = {'gap': 'float', 'threshold': 'float', 'min_coverage': 'float', 'min_quality': 'int', 'min_mapq': 'int', 'phase': 'bool',
              'sam_long_reads': 'bool', 'sam_mappy_preset': 'str', 'cn_max': 'int', 'cn_pce_penalty': 'float', 'cn_diff': 'float',
              'cn_fit': 'float', 'cn_parsimony': 'float', 'cn_fusion_left': 'float', 'cn_fusion_right': 'float', 'major_novel': 'float',
              'minor_miss': 'float', 'minor_add': 'float', 'minor_phase': 'float', 'minor_phase_vars': 'int', 'male': 'bool',
              'max_minor_solutions': 'int', 'display_format': 'bool', 'debug_probe': 'str', 'debug_novel': 'bool',
              'min_avg_coverage': 'float', 'vcf_sample_idx': 'int', 'indelpost': 'bool'}

_cache = {}


def _env():
    if _cache:
        return _cache
    from aldy.profile import Profile
    from aldy.common import script_path

    p = Profile("x")
    table = {}
    for k, v in vars(p).items():
        if k in NON_PARAMS:
            continue
        table[k] = DOCUMENTED.get(k, type(v).__name__)  # parameters added later are typed by their default
    _cache["table"] = table
    _cache["defaults"] = {k: getattr(p, k) for k in table}
    _cache["toy"] = script_path("aldy.tests.resources/toy.yml")
    d = scratch()
    _cache["dir"] = d
    dummy = os.path.join(d, "dummy.txt")
    with open(dummy, "w") as f:
        f.write("not an alignment file\n")
    _cache["dummy"] = dummy
    return _cache


# ------------------------------------------------------------------ typed value model
def expected(kind, value):
    """-> ("value", v) | ("reject",) | ("either", v)  for a parameter of type `kind` given `value`."""
    if kind == "bool":
        if isinstance(value, bool):
            return ("value", value)
        if isinstance(value, int):
            if value in (0, 1):
                return ("either", bool(value))
            return ("reject",)
        if isinstance(value, str):
            s = value.lower()
            if s in ("true", "1"):
                return ("value", True)
            if s in ("false", "0"):
                return ("value", False)
            return ("reject",)
        return ("reject",)
    if kind == "int":
        if isinstance(value, bool):
            return ("skip",)
        if isinstance(value, int):
            return ("value", value)
        if isinstance(value, float):
            return ("value", int(value)) if value == int(value) else ("skip",)
        try:
            return ("value", int(value))
        except ValueError:
            return ("reject",)
    if kind == "float":
        if isinstance(value, bool):
            return ("skip",)
        if isinstance(value, (int, float)):
            return ("value", float(value))
        try:
            return ("value", float(value))
        except ValueError:
            return ("reject",)
    if kind == "str":
        return ("value", str(value))
    return ("skip",)


# ------------------------------------------------------------------ routes
class _Captured(Exception):
    pass


def _patch_logging():
    import logbook.more

    class Quiet(logbook.NullHandler):
        def __init__(self, *a, **k):
            super().__init__()

        def push_application(self):
            pass

    import aldy.__main__ as M

    M.logbook.more.ColorizedStderrHandler = Quiet


def _run_genotype(route, params, opts_file_params=None):
    """Returns ("profile", Profile) | ("rejected", message) | ("other", text)."""
    env = _env()
    import logbook
    import aldy.sam
    import aldy.genotype
    from aldy.common import AldyException

    box = {}
    orig = aldy.sam.Sample.__init__

    def fake(self, gene, profile, *a, **k):
        box["profile"] = profile
        raise AldyException("__captured__")

    aldy.sam.Sample.__init__ = fake
    handler = logbook.TestHandler(level="WARNING")
    try:
        with handler.applicationbound():
            if route == "api":
                try:
                    aldy.genotype.genotype(env["toy"], env["dummy"], None, output_file=None,
                                           cn_solution=["1", "1"], genome="hg19", solver="cbc", **dict(params))
                except AldyException as e:
                    if "profile" not in box:
                        return ("rejected", str(e))
            else:
                _patch_logging()
                import aldy.__main__ as M

                argv = ["genotype", env["dummy"], "-g", env["toy"], "--genome", "hg19", "-s", "cbc"]
                if opts_file_params is not None:
                    argv += ["-p", _profile_file(opts_file_params)]
                else:
                    argv += ["--cn", "1,1"]
                for k, v in params:
                    argv += ["--param", f"{k}={v}"]
                err = io.StringIO()
                try:
                    with contextlib.redirect_stderr(err), contextlib.redirect_stdout(io.StringIO()):
                        M.main(argv)
                except SystemExit as e:
                    return ("other", f"exit {e.code}: " + " | ".join(r.message for r in handler.records)[-400:])
                if "profile" not in box:
                    msgs = [r.message for r in handler.records]
                    rej = [m for m in msgs if "Invalid parameter" in m]
                    if rej:
                        return ("rejected", rej[0])
                    return ("other", " | ".join(msgs)[-400:])
    finally:
        aldy.sam.Sample.__init__ = orig
    return ("profile", box["profile"])


_pf_counter = [0]


def _profile_file(options):
    env = _env()
    _pf_counter[0] += 1
    path = os.path.join(env["dir"], f"p{os.getpid()}_{_pf_counter[0] % 50}.yml")
    d = {"neutral": {"value": 1000, "hg19": ["20", 100001000, 100002000]},
         "TOY": {r: [10, 10] for r in ["tmp", "e1", "i1", "e2", "i2", "e3", "down"]}}
    if options is not None:
        d["options"] = dict(options)
    with open(path, "w") as f:
        yaml.dump(d, f, default_flow_style=None)
    return path


def _gene():
    if "gene" not in _cache:
        from aldy.gene import Gene

        _cache["gene"] = Gene(_env()["toy"], genome="hg19")
    return _cache["gene"]


def _run_options(options, explicit=()):
    from aldy.profile import Profile
    from aldy.common import AldyException

    try:
        return ("profile", Profile.load(_gene(), _profile_file(options), None, **dict(explicit)))
    except AldyException as e:
        return ("rejected", str(e))


def _run_roundtrip(params):
    from aldy.profile import Profile
    from aldy.common import AldyException, GRange

    gene = _gene()
    regions = {(gene.name, r, gi): rng for gi, gr in enumerate(gene.regions) for r, rng in gr.items()}
    try:
        d = Profile.get_sam_profile_data("<illumina>", regions=regions, genome="hg19",
                                         cn_region=GRange("20", 100001000, 100002000), params=dict(params))
    except AldyException as e:
        return ("rejected", str(e))
    text = yaml.dump(d, default_flow_style=None)  # what `aldy profile` prints
    env = _env()
    _pf_counter[0] += 1
    path = os.path.join(env["dir"], f"r{os.getpid()}_{_pf_counter[0] % 50}.yml")
    with open(path, "w") as f:
        f.write(text)
    try:
        return ("profile", Profile.load(gene, path, None))
    except AldyException as e:
        return ("rejected", "load: " + str(e))


# ------------------------------------------------------------------ case execution
def run_case(case):
    env = _env()
    table, defaults = env["table"], env["defaults"]
    route = case["route"]
    params = [(k, v) for k, v in case["params"]]
    labels = [f"route:{route}"]
    viol = []

    # expected outcome
    exp = {}
    reject = False
    skip = False
    for k, v in params:
        name = k.replace("-", "_") if route in ("cli", "clifile") else k
        if name not in table:
            labels.append("unknown-name")
            continue
        e = expected(table[name], v)
        labels.append(f"type:{table[name]}")
        if e[0] == "skip":
            skip = True
        elif e[0] == "reject":
            reject = True
            labels.append("malformed")
        else:
            exp[name] = e
    if skip:
        return Result([], labels + ["skipped-undefined"], False)

    if route == "api":
        out = _run_genotype("api", params)
    elif route == "cli":
        out = _run_genotype("cli", params)
    elif route == "clifile":
        out = _run_genotype("cli", params, opts_file_params=dict(case["file_options"]))
    elif route == "options":
        out = _run_options(dict(params))
    elif route == "optexplicit":
        out = _run_options(dict(case["file_options"]), params)
    elif route == "roundtrip":
        out = _run_roundtrip(params)
    else:
        raise ValueError(route)

    nontrivial = route != "api" or any(isinstance(v, str) for _, v in params)
    pdesc = ",".join(f"{k}:{type(v).__name__}" for k, v in params)
    if out[0] == "other":
        viol.append(V(f"run-failed:{route}", outcome=out[1], params=params))
    elif reject:
        if out[0] != "rejected":
            got = {k: repr(getattr(out[1], k.replace('-', '_'), None)) for k, _ in params}
            kinds = sorted({table[k.replace('-', '_')] for k, _ in params if k.replace('-', '_') in table})
            viol.append(V(f"malformed-accepted:{'+'.join(kinds)}", params=params, got=got, route=route))
    else:
        if out[0] == "rejected":
            # ints 1/0 for booleans may be rejected
            if all(e[0] == "either" for e in exp.values()) and exp:
                labels.append("int-bool-rejected")
            else:
                viol.append(V(f"valid-rejected:{route}", params=params, message=out[1]))
        else:
            prof = out[1]
            for name, e in exp.items():
                got = getattr(prof, name)
                want = e[1]
                if type(got) is not type(want) or got != want:
                    given = {k.replace("-", "_"): v for k, v in params}.get(name)
                    viol.append(V(f"wrong-value:{table[name]}", route=route, name=name, given=repr(given),
                                  want=repr(want), got=repr(got)))
            # file options not overridden keep the file's value; everything else keeps its default
            fileopts = dict(case.get("file_options", []))
            for name in table:
                if name in exp:
                    continue
                want = defaults[name]
                if name in fileopts:
                    fe = expected(table[name], fileopts[name])
                    if fe[0] in ("value", "either"):
                        want = fe[1]
                    else:
                        continue
                got = getattr(prof, name)
                if type(got) is not type(want) or got != want:
                    viol.append(V("other-parameter-changed", route=route, name=name, want=repr(want), got=repr(got), params=params))
            # unknown names create no attribute
            for k, _ in params:
                n = k.replace("-", "_") if route in ("cli", "clifile") else k
                if n not in table and n not in NON_PARAMS and hasattr(prof, n):
                    viol.append(V("unknown-name-created-attribute", name=n, route=route))
    return Result(viol, labels + [f"shape:{pdesc}"[:60]], nontrivial)


# ------------------------------------------------------------------ generators
BOOL_SPELLINGS = [True, False, "True", "False", "true", "false", "TRUE", "FALSE", "tRuE", "fAlSe", "1", "0", 1, 0,
                  "banana", "", "yes", "2", "T"]


def _cli_ok(v):
    return isinstance(v, str)


def enum_cases(tier):
    env = _env()
    out = []
    bools = [k for k, t in env["table"].items() if t == "bool"]
    for k in bools:
        for s in BOOL_SPELLINGS:
            out.append({"route": "api", "params": [[k, s]]})
            if isinstance(s, str):
                out.append({"route": "cli", "params": [[k, s]]})
                out.append({"route": "cli", "params": [[k.replace("_", "-"), s]]})
            out.append({"route": "options", "params": [[k, s]]})
            out.append({"route": "roundtrip", "params": [[k, s]]})
            # explicit beats the file
            for f in (True, False):
                out.append({"route": "optexplicit", "params": [[k, s]], "file_options": [[k, f]]})
                if isinstance(s, str):
                    out.append({"route": "clifile", "params": [[k, s]], "file_options": [[k, f]]})
    # one probe per non-boolean parameter and route with its default and a changed value
    for k, t in env["table"].items():
        if t == "bool":
            continue
        d = env["defaults"][k]
        if t == "int":
            vals = [d, d + 3, str(d + 4), "7", "2.5", "x1", ""]
        elif t == "float":
            vals = [d, d + 0.25, str(d + 1.5), "3", 4, "1e", "1e-1", "abc"]
        else:
            vals = [d, "map-ont", "I223M"]
        for v in vals:
            for route in ("api", "cli", "options", "roundtrip"):
                if route == "cli" and not isinstance(v, str):
                    v2 = str(v)
                else:
                    v2 = v
                if route in ("options", "roundtrip", "api") and v2 == "" and t == "str":
                    continue
                out.append({"route": route, "params": [[k, v2]]})
    # unknown names
    for route in ("api", "cli", "options", "roundtrip"):
        out.append({"route": route, "params": [["no_such_parameter", "5"]]})
        out.append({"route": route, "params": [["no_such_parameter", "5"], ["gap", "0.2"]]})
    return out


def strategy(tier):
    env = _env()
    table = env["table"]
    names = sorted(table)

    def value_for(kind):
        if kind == "bool":
            return st.sampled_from(BOOL_SPELLINGS) | st.sampled_from(["true", "false"]).flatmap(
                lambda w: st.lists(st.booleans(), min_size=len(w), max_size=len(w)).map(
                    lambda ups: "".join(c.upper() if u else c for c, u in zip(w, ups))))
        if kind == "int":
            iv = st.integers(0, 5000)
            return iv | iv.map(str) | iv.map(float) | st.sampled_from(["2.5", "1e3", "ten", " 7", "0x10", "-"]) | iv.map(lambda i: f"{i}.0")
        if kind == "float":
            fv = st.floats(0, 100, allow_nan=False, allow_infinity=False).map(lambda x: round(x, 4))
            return fv | fv.map(str) | st.integers(0, 50) | st.integers(0, 50).map(str) | st.sampled_from(["1e", "1e-2", ".5", "5.", "abc", "1,5", "--1"])
        return st.sampled_from(["map-hifi", "map-ont", "sr", "I223M;rs1065852", "x y"])

    one = st.sampled_from(names).flatmap(lambda n: value_for(table[n]).map(lambda v: [n, v]))
    unknown = st.tuples(st.sampled_from(["foo", "gap_", "Phase", "min-quality-x", "cnmax"]), st.sampled_from(["1", "true", "0.5"])).map(list)
    plist = st.lists(one | unknown, min_size=1, max_size=4, unique_by=lambda kv: kv[0].replace("-", "_"))

    def build(route, params, fileopts, hyph):
        c = {"route": route, "params": params}
        if route in ("cli", "clifile"):
            c["params"] = [[k.replace("_", "-") if hyph else k, v if isinstance(v, str) else str(v)] for k, v in params]
        if route in ("clifile", "optexplicit"):
            c["file_options"] = fileopts
        return c

    # file options: well-formed native values only (the file is the lower-priority source)
    def native_for(kind):
        return {"bool": st.booleans(), "int": st.integers(0, 500), "float": st.floats(0, 50).map(lambda x: round(x, 3)),
                "str": st.sampled_from(["map-ont", "sr"])}[kind]

    fo = st.lists(st.sampled_from(names).flatmap(lambda n: native_for(table[n]).map(lambda v: [n, v])), max_size=3,
                  unique_by=lambda kv: kv[0])
    return st.builds(build, st.sampled_from(["api", "cli", "options", "roundtrip", "clifile", "optexplicit"]), plist, fo, st.booleans())


def budget(tier):
    return {"examples": 1600 if tier == "quick" else 40000, "shards": 16}
