"""C08 - a catalogued variant denotes the same haplotype in every coordinate system."""
import glob
import os
import random

import yaml
from hypothesis import strategies as st

from lib import gen_db, refseq
from lib.refseq import revcomp, Mismatch
from lib.runner import Result, V, scratch, REPO

ID = "C08"
RULE = ("exhaustive part: every variant of the 38 shipped databases x {hg19, hg38} (one case per database and build); generated part: "
        "databases with random sequence, SNP / MNP (adjacent and dotted) / deletion / insertion / deletion-insertion variants, either "
        "strand per build, alignment strings with RefSeq-only and genome-only gaps, indels outside and inside repeats; a variant is "
        "non-trivial if it is an indel / MNP / del-ins, lies on a - strand build, or within 40 bases of an alignment gap; "
        "distinct = (database digest, build)")
ASSUMPTIONS = [
    "the haplotype comparison uses the largest window (+-30 bases) inside one ungapped block of the alignment; variants whose footprint crosses a gap are counted, not judged",
    "the raw YAML is read with yaml.safe_load by the harness, not through Gene",
    "the indelpost anchoring clause is exercised on generated databases only (shipped loci would need 40-250 MB temporary references)",
]
EXPLANATION = "exhaustive over shipped catalogues + generated dual-build databases; oracle = apply-in-RefSeq vs apply-in-genome sequence equality, inverse maps, notation round trip, codon-level effect, insertion anchoring"
W = 30


def raw_entries(yml, name):
    """All (pos1, op) entries the database writes (structural markers excluded) -> {(pos1, op): annotated function or None}."""
    out = {}
    pseudo = set(yml["structure"]["genes"][1:]) | {yml["name"]}

    def take(lst):
        for ent in lst:
            pos, op = ent[0], ent[1]
            if isinstance(pos, str):
                continue
            info = ent[2:]
            fn = info[1] if len(info) > 1 else None
            out.setdefault((pos, op), fn)

    take(yml["alleles"].get("random", []))
    for g, lst in yml["alleles"].get("groups", {}).items():
        take(lst)
    for an, a in yml["alleles"].items():
        if an in ("random", "groups") or a.get("ignored", False):
            continue
        take(a["mutations"])
    return out


def check_gene(path, build, gene, yml, viol, labels, stats, deep=False):
    seq = yml["reference"]["seq"].replace("\n", "")
    if "patches" in yml["reference"]:
        s = list(seq)
        for pos, nuc in yml["reference"]["patches"]:
            s[pos - 1] = nuc
        seq = "".join(s)
    L = len(seq)
    r2c, blocks, st_ = refseq.parse_mapping(yml["reference"]["mappings"][build], L)
    strand = st_
    # ---- maps
    if gene.strand != strand:
        viol.append(V("strand", got=gene.strand, want=strand))
    if dict(gene.ref_to_chr) != r2c:
        bad = [(r, gene.ref_to_chr.get(r), r2c.get(r)) for r in sorted(set(r2c) | set(gene.ref_to_chr)) if gene.ref_to_chr.get(r) != r2c.get(r)][:3]
        viol.append(V("ref_to_chr-differs-from-alignment-string", examples=bad))
    inv = {c: r for r, c in r2c.items()}
    if dict(gene.chr_to_ref) != inv or len(inv) != len(r2c):
        viol.append(V("chr_to_ref-not-inverse", n=len(gene.chr_to_ref), want=len(inv)))
    for r, c in r2c.items():
        want = seq[r] if strand > 0 else refseq.COMP[seq[r]]
        if gene[c] != want:
            viol.append(V("lookup-sequence", refpos=r, chrpos=c, got=gene[c], want=want, strand=strand))
            break
    gaps = sorted({b[0] for b in blocks} | {b[1] for b in blocks})

    def block_of(a, b):
        for lo, hi in blocks:
            if lo <= a and b <= hi:
                return lo, hi
        return None

    raw = raw_entries(yml, gene.name)
    loaded_by_orig = {}
    for (gpos, gop), (fn, rs, rpos, opos, oop) in gene.mutations.items():
        loaded_by_orig.setdefault((opos + 1, oop), (gpos, gop))
    # ---- completeness: every written variant inside the mapped part is loaded
    for (pos1, op), fn in raw.items():
        a, b = refseq.footprint(pos1, op)
        if (pos1, op) not in loaded_by_orig:
            if all(r in r2c for r in range(a, min(b, a + 1))) and 0 <= a < L:
                # aldy drops variants whose (adjusted) anchor is unmapped; the first base being mapped is the written anchor
                stats["not-loaded"] += 1
            continue
    # ---- per loaded variant
    for (gpos, gop), (fn, rs, rpos, opos, oop) in sorted(gene.mutations.items()):
        pos1 = opos + 1
        stats["variants"] += 1
        kind = "ins" if oop.startswith("ins") else "delins" if ("ins" in oop[3:] and oop.startswith("del")) else "del" if oop.startswith("del") else "mnp" if len(oop) > 3 else "snp"
        stats["kind:" + kind] += 1
        a, b = refseq.footprint(pos1, oop)
        near = any(abs(a - g) <= 40 or abs(b - g) <= 40 for g in gaps if g not in (0, L))
        if kind != "snp" or strand < 0 or near:
            stats["nontrivial"] += 1
        if (pos1, oop) not in raw:
            viol.append(V("loaded-variant-not-written-in-database", variant=f"{pos1}{oop}"))
            continue
        if gene.get_refseq((gpos, gop)) != f"{pos1}{oop}":
            viol.append(V("refseq-notation", got=gene.get_refseq((gpos, gop)), want=f"{pos1}{oop}"))
        blk = block_of(a, b)
        if blk is None:
            stats["crosses-gap"] += 1
            continue
        wl, wr = max(blk[0], a - W), min(blk[1], b + W)
        try:
            exp = refseq.apply_refseq(seq[wl:wr], pos1 - wl, oop)
        except Mismatch as e:
            viol.append(V(f"database-reference-allele:{kind}", variant=f"{pos1}{oop}", message=str(e)))
            continue
        cs = [r2c[r] for r in range(wl, wr)]
        g_lo, g_hi = min(cs), max(cs) + 1
        win = "".join(gene[i] for i in range(g_lo, g_hi))
        try:
            got = refseq.apply_genome(win, gpos - g_lo, gop)
        except Mismatch as e:
            viol.append(V(f"loaded-reference-allele:{kind}:strand{strand:+d}", variant=f"{pos1}{oop}", loaded=f"{gpos}.{gop}", message=str(e)))
            continue
        if strand < 0:
            got = revcomp(got)
        if got != exp:
            viol.append(V(f"haplotype-differs:{kind}:strand{strand:+d}", variant=f"{pos1}{oop}", loaded=f"{gpos}.{gop}", want=exp, got=got))
        if kind == "ins":
            flank = {gene.chr_to_ref.get(gpos), gene.chr_to_ref.get(gpos + 1)}
            if flank != {pos1 - 1, pos1}:
                viol.append(V(f"insertion-flanks:strand{strand:+d}", variant=f"{pos1}{oop}", loaded=f"{gpos}.{gop}", flanks=sorted(map(str, flank))))
    # ---- inferred amino-acid effects for exonic substitutions that are not catalogued
    exons = sorted((s - 1, e - 1) for s, e in yml["reference"]["exons"])
    cds = "".join(seq[s:e] for s, e in exons)
    prot = refseq.translate(cds)
    rng = random.Random(len(seq) * 31 + (1 if build == "hg38" else 0))
    expos = [i for s, e in exons for i in range(s, e) if i in r2c]
    off = {}
    k = 0
    for s, e in exons:
        for i in range(s, e):
            off[i] = k
            k += 1
    for _ in range(40 if not deep else 120):
        if not expos:
            break
        r = rng.choice(expos)
        alt = rng.choice([c for c in "ACGT" if c != seq[r]])
        gp = r2c[r]
        gop = f"{seq[r]}>{alt}" if strand > 0 else f"{refseq.COMP[seq[r]]}>{refseq.COMP[alt]}"
        if (gp, gop) in gene.mutations:
            continue
        mutated = cds[:off[r]] + alt + cds[off[r] + 1:]
        p2 = refseq.translate(mutated)
        want = None
        if p2 != prot:
            i = next(i for i in range(len(prot)) if prot[i] != p2[i])
            want = f"{prot[i]}{i + 1}{p2[i]}"
        got = gene.get_functional((gp, gop))
        stats["aa-probes"] += 1
        if got != want:
            viol.append(V(f"amino-acid-effect:strand{strand:+d}", refpos=r + 1, change=f"{seq[r]}>{alt}", got=got, want=want))
            break


def indelpost_anchoring(gene, db_path, viol, stats):
    """Variants handed to indel realignment and the keys registered for long-read matching denote the catalogue haplotype."""
    import pysam
    import aldy.indelpost
    from aldy.sam import Sample
    from aldy.profile import Profile

    d = scratch()
    bam = os.path.join(d, "c08.bam")
    wide = gene.get_wide_region()
    Lc = wide.end + 200
    hdr = {"HD": {"VN": "1.0", "SO": "coordinate"}, "SQ": [{"SN": gene.chr, "LN": Lc}]}
    with pysam.AlignmentFile(bam, "wb", header=hdr) as f:
        a = pysam.AlignedSegment(f.header)
        a.query_name = "r"
        a.reference_id = 0
        a.reference_start = wide.start + 5
        a.cigartuples = [(0, 20)]
        a.query_sequence = "".join(gene[i] if gene[i] != "N" else "A" for i in range(wide.start + 5, wide.start + 25))
        a.mapping_quality = 60
        a.flag = 0
        a.query_qualities = pysam.qualitystring_to_array("I" * 20)
        f.write(a)
    pysam.index(bam)
    captured = []
    orig = aldy.indelpost.Variant

    class Spy(orig):
        def __init__(self, chrom, pos, ref, alt, reference):
            captured.append((chrom, pos, ref, alt))
            super().__init__(chrom, pos, ref, alt, reference)

    aldy.indelpost.Variant = Spy
    try:
        s = Sample(gene, Profile("x", cn_solution=["1", "1"], indelpost=False), bam)
    finally:
        aldy.indelpost.Variant = orig
    lo, hi = gene._lookup_range
    G = "".join(gene[i] for i in range(lo, hi))
    indels = sorted((p, o) for p, o in gene.mutations if o[:3] in ("ins", "del"))
    order = sorted(indels, key=lambda x: (x[0], -len(x[1])))
    if len(captured) != len(order):
        viol.append(V("indelpost-variants-count", got=len(captured), want=len(order)))
        return
    for (p, o), (chrom, pos1, ref, alt) in zip(order, captured):
        stats["indelpost-anchors"] += 1
        try:
            want = refseq.apply_genome(G, p - lo, o)
        except Mismatch:
            continue
        i = pos1 - 1 - lo
        kind = "ins" if o.startswith("ins") else "delins" if "ins" in o[3:] else "del"
        if G[i:i + len(ref)] != ref:
            viol.append(V(f"indelpost-ref-allele:{kind}", variant=f"{p}.{o}", vcf=(pos1, ref, alt), genome=G[i:i + len(ref)]))
            continue
        got = G[:i] + alt + G[i + len(ref):]
        if got != want:
            viol.append(V(f"indelpost-anchor:{kind}", variant=f"{p}.{o}", vcf=(pos1, ref, alt)))
    for (np_, no), (p, o) in s._indel_sites_eqs.items():
        stats["longread-keys"] += 1
        try:
            want = refseq.apply_genome(G, p - lo, o)
        except Mismatch:
            continue
        i = np_ - lo
        if no.startswith("ins"):
            got = G[:i] + no[3:] + G[i:]  # _parse_read keys an insertion by the reference base that FOLLOWS it
        else:
            got = G[:i] + G[i + len(no) - 3:]
        if got != want:
            viol.append(V(f"longread-equivalent-key:{'ins' if no.startswith('ins') else 'del'}", key=f"{np_}.{no}", variant=f"{p}.{o}"))
            break


def run_case(case):
    import collections
    from aldy.gene import Gene

    stats = collections.Counter()
    viol = []
    labels = []
    if case["kind"] == "shipped":
        path = os.path.join(REPO, "aldy", "resources", "genes", case["gene"] + ".yml")
        with open(path) as f:
            yml = yaml.safe_load(f)
        gene = Gene(path, genome=case["build"])
        check_gene(path, case["build"], gene, yml, viol, labels, stats)
        labels.append("shipped")
    else:
        d = scratch()
        path = os.path.join(d, "c08.yml")
        gen_db.write(case["db"], path)
        with open(path) as f:
            yml = yaml.safe_load(f)
        for build in ("hg19", "hg38"):
            gene = Gene(path, genome=build)
            check_gene(path, build, gene, yml, viol, labels, stats, deep=True)
            labels.append(f"strand:{gene.strand:+d}")
            if " I" in " " + yml["reference"]["mappings"][build][4] or " D" in " " + yml["reference"]["mappings"][build][4]:
                labels.append("alignment-gaps")
            if any(o[:3] in ("ins", "del") for _, o in gene.mutations):
                indelpost_anchoring(gene, path, viol, stats)
        if case["db"].get("repeats"):
            labels.append("repeat-context")
    labels += [k for k in stats if k.startswith("kind:")]
    if stats["crosses-gap"]:
        labels.append("crosses-gap")
    info = dict(stats)
    # one bucket per clause is enough
    seen = set()
    uniq = []
    for v in viol:
        if v["bucket"] not in seen:
            seen.add(v["bucket"])
            uniq.append(v)
    return Result(uniq, labels, stats["nontrivial"] > 0, info=info)


def enum_cases(tier):
    genes = sorted(os.path.basename(p)[:-4] for p in glob.glob(os.path.join(REPO, "aldy", "resources", "genes", "*.yml")))
    return [{"kind": "shipped", "gene": g, "build": b} for g in genes for b in ("hg19", "hg38")]


def strategy(tier):
    return st.fixed_dictionaries({
        "kind": st.just("generated"),
        "db": gen_db.db_specs(kinds=gen_db.KINDS_ALL, max_sites=12, sv=False, gaps=True),
    })


def budget(tier):
    return {"examples": 320 if tier == "quick" else 6000, "shards": 16}
