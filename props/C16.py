"""C16 - VCF genotypes are turned into matching evidence for every variant kind."""
import collections
import os

from hypothesis import strategies as st
from natsort import natsorted

from lib import gen_db, simreads
from lib.runner import Result, V, scratch

ID = "C16"
ISOLATE = True
CASE_TIMEOUT = 60
RULE = ("case = generated database x build x one or two catalogued default-structure alleles written as standard left-anchored VCF "
        "records (MNP as one record or as adjacent SNP records) with the diploid genotype they imply, phased or not x optional "
        "extras (REF-mismatch spelling of a record, foreign-shaped records, non-diploid / missing genotypes on extra records) x "
        "multi-sample file with the target at index 0-3; evidence table of Sample() compared with the expected table, then "
        "genotype() on the file; non-trivial = an indel/MNP is planted or an extra is present or sample index > 0")
ASSUMPTIONS = [
    "one copy's worth of support u is measured on a heterozygous non-catalogue SNP added to every file (must be > 0)",
    "for insertions the reference support at the site may either stay at two copies (aldy's own convention for insertions) or be reduced",
    "genotype() end-to-end clause judged only when the two planted alleles have disjoint variant footprints or are identical",
]
EXPLANATION = "planted VCF -> evidence table; oracle = expected per-variant support and reference support, foreign records ignored, planted major pair reported"

FOREIGN = ["mnp_unrelated", "complex", "symbolic", "star", "long_del_ins", "complex_at_del", "complex_at_ins"]
ODDGT = ["./.", ".", "1", "0/1/1", "./1"]


def vcf_records(sim, gene, m, style, pad=0, norm=False):
    """Left-anchored VCF records for a loaded variant m=(pos, op) -> list of (pos0, ref, alt); pad = extra shared bases in front of
    the anchor base of an insertion / deletion record (as in records merged from several alleles)."""
    pos, op = m
    G = sim.genome
    if norm and (op.startswith("ins") or op.startswith("del")) and "ins" not in op[3:]:
        # the record a caller writes: the indel shifted to its leftmost equivalent position inside a repeat
        seq = op[3:]
        for _ in range(200):
            prev = G[pos] if op.startswith("ins") else G[pos - 1]
            if prev != seq[-1] or pos < 3:
                break
            seq = seq[-1] + seq[:-1]
            pos -= 1
        op = op[:3] + seq
    if op.startswith("ins"):
        pad = min(pad, max(0, pos - 1))
        return [(pos - pad, G[pos - pad:pos + 1], G[pos - pad:pos + 1] + op[3:])]
    if op.startswith("del"):
        pad = min(pad, max(0, pos - 2))
        return [(pos - 1 - pad, G[pos - 1 - pad:pos] + op[3:], G[pos - 1 - pad:pos])]
    l, r = op.split(">")
    if len(l) == 1:
        return [(pos, l, r)]
    if style == "mnp_one":
        ref = "".join(G[pos + i] for i in range(len(l)))
        alt = "".join(r[i] if l[i] != "." else G[pos + i] for i in range(len(l)))
        return [(pos, ref, alt)]
    return [(pos + i, l[i], r[i]) for i in range(len(l)) if l[i] != "."]


def write_vcf(path, chrom, length, samples, recs):
    """recs: list of (pos0, ref, [alts], [gt per sample])."""
    import pysam

    with open(path, "w") as f:
        f.write("##fileformat=VCFv4.2\n")
        f.write(f"##contig=<ID={chrom},length={length}>\n")
        f.write('##ALT=<ID=DEL,Description="Deletion">\n')
        f.write('##INFO=<ID=SVTYPE,Number=1,Type=String,Description="x">\n')
        f.write('##FORMAT=<ID=GT,Number=1,Type=String,Description="Genotype">\n')
        f.write("#CHROM\tPOS\tID\tREF\tALT\tQUAL\tFILTER\tINFO\tFORMAT\t" + "\t".join(samples) + "\n")
        for pos0, ref, alts, gts in sorted(recs, key=lambda x: (x[0], x[1], x[2])):
            f.write(f"{chrom}\t{pos0 + 1}\t.\t{ref}\t{','.join(alts)}\t50\tPASS\t.\tGT\t" + "\t".join(gts) + "\n")
    gz = path + ".gz"
    if os.path.exists(gz):
        os.remove(gz)
    if os.path.exists(gz + ".tbi"):
        os.remove(gz + ".tbi")
    pysam.tabix_index(path, preset="vcf", force=True)
    return gz


def evidence(sample, gene):
    cov = sample.coverage
    tab = {}
    for pos, ops in cov._coverage.items():
        for op, v in ops.items():
            if op != "_" and len(v):
                tab[(pos, op)] = len(v)
    return tab


def run_case(case):
    from aldy.gene import Gene, Mutation
    from aldy.sam import Sample
    from aldy.profile import Profile
    from aldy.genotype import genotype
    from aldy.common import AldyException

    d = scratch()
    db = os.path.join(d, "ga.yml")
    build = case["build"]
    if case.get("gene"):
        from aldy.common import script_path
        from lib import gen_sol

        db = script_path(f"aldy.resources.genes/{case['gene']}.yml")
        gene = gen_sol.shipped(case["gene"], build)
    else:
        gen_db.write(case["db"], db)
        gene = Gene(db, genome=build)
    sim = simreads.Sim(gene, seed=case["sim_seed"])
    dflt = natsorted(mn for a in gene.alleles.values() if a.cn_config == "1" for mn in a.minors)
    picks = [dflt[i % len(dflt)] for i in case["alleles"]]
    if case.get("twinpick"):
        # directed: two alleles that carry DIFFERENT substitutions at one position (a multi-allelic site), if the database has such
        subs = {nm: {m[0]: m[1] for m in simreads.allele_copy(gene, nm)[1] if ">" in m[1]} for nm in dflt[:60]}
        pairs = [(a, b) for a in subs for b in subs if a < b and any(p_ in subs[b] and subs[b][p_] != o_ for p_, o_ in subs[a].items())]
        if pairs:
            picks = list(pairs[case["alleles"][0] % len(pairs)])
    vars_ = []
    for nm in picks:
        _, ms, maj = simreads.allele_copy(gene, nm)
        vars_.append((nm, maj, {tuple(m) for m in ms}))
    copies = collections.Counter(m for _, _, ms in vars_ for m in ms)
    # the reference allele = the default-structure major allele without core variants (not every gene calls it *1)
    ref_majors = [a for a, al in gene.alleles.items() if al.cn_config == "1" and not al.func_muts]
    ref_major = ref_majors[0] if len(ref_majors) == 1 else None
    if len(vars_) == 1:  # heterozygous against the reference allele
        planted_major = collections.Counter([vars_[0][1], ref_major])
    else:
        planted_major = collections.Counter(v[1] for v in vars_)
    idx = case["idx"]
    nsamp = max(idx + 1, case["nsamp"])
    samples = [f"S{i}" for i in range(nsamp)]
    sep = "|" if case["phased"] else "/"
    style = case["mnp_style"]
    recs = []
    labels = [f"strand:{gene.strand:+d}", f"idx:{idx}", "phased" if case["phased"] else "unphased"]
    if case.get("gene"):
        labels.append("shipped:" + case["gene"])
    kinds = set()

    def gts(target, other_seed):
        out = []
        for i in range(nsamp):
            if i == idx:
                out.append(target)
            else:
                out.append(["0/0", "1/1", "0/1", "./."][(other_seed + i) % 4])
        return out

    footprints = []
    expected = {}
    refdrop = collections.Counter()
    for m, c in sorted(copies.items()):
        pos, op = m
        kind = "ins" if op.startswith("ins") else "del" if op.startswith("del") else "mnp" if len(op) > 3 else "snp"
        kinds.add(kind)
        gt = (f"0{sep}1" if not case["flip"] else f"1{sep}0") if c == 1 else f"1{sep}1"
        rr = vcf_records(sim, gene, m, style, case.get("pad", 0), norm=bool(case.get("norm")))
        if case.get("norm") and kind in ("ins", "del") and rr[0][0] != (pos if kind == "ins" else pos - 1):
            labels.append("left-aligned-indel-record-differs-from-database-placement")
        if case.get("pad") and kind in ("ins", "del"):
            labels.append("padded-indel-record")
        mismatch = case["refmismatch"] and kind == "snp"
        if case["refmismatch"] and kind == "del" and not case.get("pad"):
            # the record's REF disagrees with the reference at one of the DELETED bases (not the anchor): still the same deletion
            p0_, ref_, alt_ = rr[0]
            k_ = 1 + (pos % (len(ref_) - 1)) if len(ref_) > 1 else None
            if k_:
                ref_ = ref_[:k_] + {"A": "C", "C": "G", "G": "T", "T": "A"}.get(ref_[k_], "A") + ref_[k_ + 1:]
                rr = [(p0_, ref_, alt_)]
                labels.append("ref-mismatch-inside-deletion")
        for (p0, ref, alt) in rr:
            if mismatch:
                # the same genotype spelled against a reference that carries the alternate base
                g2 = {f"0{sep}1": f"0{sep}1", f"1{sep}0": f"1{sep}0", f"1{sep}1": f"0{sep}0"}[gt]
                recs.append((p0, alt, [ref], gts(g2, p0)))
                labels.append("ref-mismatch")
            else:
                recs.append((p0, ref, [alt], gts(gt, p0)))
            footprints.append((p0 - 2, p0 + len(ref) + 2))
        expected[m] = c
        if kind in ("snp", "del"):
            refdrop[pos] += c
        elif kind == "mnp":
            refdrop[pos] += c
    if case.get("merge"):
        # records of the target's variants that start at one position become ONE multi-allelic record (REF = the longest one,
        # the other alternatives extended by its tail); the target is 1/2 there
        byp = collections.defaultdict(list)
        for r_ in recs:
            byp[r_[0]].append(r_)
        merged = []
        for p0, lst in sorted(byp.items()):
            het = [f"0{sep}1", f"1{sep}0"]
            if len(lst) == 2 and all(len(r_[2]) == 1 and r_[3][idx] in het for r_ in lst) and lst[0][1][0] == lst[1][1][0]:
                R = max((r_[1] for r_ in lst), key=len)
                if all(R.startswith(r_[1]) for r_ in lst):
                    alts = [r_[2][0] + R[len(r_[1]):] for r_ in lst]
                    if len(set(alts)) == 2 and R not in alts:
                        g_ = [(f"1{sep}2" if not case["flip"] else f"2{sep}1") if i == idx else ["0/0", "1/2", "0/1", "2/2", "./."][(p0 + i) % 5]
                              for i in range(nsamp)]
                        merged.append((p0, R, alts, g_))
                        labels.append("multi-allelic-record")
                        continue
            merged += lst
        recs = merged
    if len({m_[0] for m_ in expected}) < len(expected):
        labels.append("two-variants-at-one-position")
    labels += [f"var:{k}" for k in kinds]
    if style == "mnp_one" and "mnp" in kinds:
        labels.append("mnp-one-record")
    # anchor: heterozygous non-catalogue SNP at a free position inside the mapped part
    lo, hi = gene._lookup_range
    cat = [(p - 3, p + len(o) + 3) for p, o in gene.mutations]
    anchor = None
    for p in range(lo + 30 + case["anchor"] % 50, hi - 30):
        if gene[p] != "N" and not any(a <= p < b for a, b in cat + footprints):
            anchor = p
            break
    if anchor is None:
        return Result([], labels + ["no-anchor"], False)
    ab = {"A": "C", "C": "G", "G": "T", "T": "A"}[gene[anchor]]
    recs.append((anchor, gene[anchor], [ab], gts("0/1", 1)))
    footprints.append((anchor - 2, anchor + 3))

    def free_pos(start):
        for p in range(lo + 40 + start % 200, hi - 40):
            if all(gene[q] != "N" for q in range(p - 1, p + 6)) and not any(a <= q < b for a, b in cat + footprints for q in range(p - 1, p + 6)):
                return p
        return None

    base_recs = list(recs)
    extras = []
    directed = []
    for j, (kind, seed_) in enumerate(case["extras"]):
        p = free_pos(seed_)
        if p is None:
            continue
        G = sim.genome
        flip = {"A": "C", "C": "G", "G": "T", "T": "A"}
        if kind == "mnp_unrelated":
            e = (p, G[p:p + 2], [flip[G[p]] + flip[G[p + 1]]], gts("0/1", j))
        elif kind == "complex":
            e = (p, G[p:p + 2], [flip[G[p]] + "CC"], gts("0/1", j))
        elif kind == "symbolic":
            e = (p, G[p], ["<DEL>"], gts("0/1", j))
        elif kind == "star":
            e = (p, G[p], ["*"], gts("0/1", j))
        elif kind == "long_del_ins":
            e = (p, G[p:p + 4], [flip[G[p]] + "T"], gts("1/1", j))
        elif kind in ("complex_at_del", "complex_at_ins"):
            # a complex record that shares anchor and REF span with a catalogued deletion (or whose ALT tail is a catalogued insertion
            # behind a replaced base) is NOT that variant: it must be ignored
            want_k = "del" if kind == "complex_at_del" else "ins"
            cands_ = [m for m in sorted(gene.mutations) if m[1].startswith(want_k) and "ins" not in m[1][3:] and m not in expected
                      and lo + 5 < m[0] < hi - 12 and not any(a <= q < b for a, b in footprints for q in range(m[0] - 2, m[0] + len(m[1]) + 2))]
            if not cands_:
                continue
            cp, co = cands_[seed_ % len(cands_)]
            if want_k == "del":
                a0 = cp - 1
                tail = flip[co[3]] + ("T" if len(co) > 5 else "")
                e = (a0, G[a0] + co[3:], [G[a0] + tail], gts("0/1", j))
            else:
                e = (cp, G[cp] + G[cp + 1], [G[cp] + co[3:]], gts("0/1", j))
                if co[3:] == G[cp + 1] or (co[3:] + "x")[0] == G[cp + 1]:
                    continue  # would be a plain insertion after trimming
            directed.append((cp, co))
            p = e[0]
        else:  # odd genotype on an ordinary SNP record
            e = (p, G[p], [flip[G[p]]], gts(kind, j))
        extras.append(e)
        footprints.append((p - 2, p + 8))
        labels.append("extra:" + ("oddgt" if kind in ODDGT else kind))
    nontrivial = bool(kinds & {"ins", "del", "mnp"}) or bool(extras) or idx > 0 or "ref-mismatch" in labels

    viol = []
    prof = Profile("user_provided", cn_solution=["1", "1"], vcf_sample_idx=idx)
    vcf0 = write_vcf(os.path.join(d, "base.vcf"), gene.chr, sim.L, samples, base_recs)
    try:
        s0 = Sample(gene, prof, vcf0)
    except AldyException as e:
        return Result([V("vcf-rejected", message=str(e)[:200])], labels, nontrivial)
    if s0.name != samples[idx]:
        viol.append(V("wrong-sample-selected", got=s0.name, want=samples[idx]))
    tab = evidence(s0, gene)
    u = tab.get((anchor, f"{gene[anchor]}>{ab}"), 0)
    if u <= 0:
        viol.append(V("anchor-het-snp-has-no-support", table={str(k): v for k, v in list(tab.items())[:6]}))
        return Result(viol, labels, nontrivial)

    def ref_at(s, p):
        return len(s.coverage._coverage.get(p, {}).get("_", []))

    for m, c in expected.items():
        pos, op = m
        kind = "ins" if op.startswith("ins") else "del" if op.startswith("del") else "mnp" if len(op) > 3 else "snp"
        got = s0.coverage.coverage(Mutation(pos, op))
        if got != c * u and kind in ("ins", "del") and "multi-allelic-record" in labels:
            # (was finding KF-VCFSHIFT, repaired in 4f05ef9; the classification is kept so that a return of it is named) an insertion / deletion allele of a multi-allelic record that also holds an allele of
            # another length is spelled with trailing shared bases; aldy strips shared LEADING bases only, so in a repeat the variant
            # lands at an equivalent position further right than the database's (left-aligned) placement and supports nothing
            # catalogued.  Matched only if the evidence table holds exactly the expected number of observations of an indel of the same
            # kind nearby that denotes the SAME haplotype as the catalogued variant (both applied to the reference sequence)
            from lib import refseq as _rs

            lo_, hi_ = pos - 40, pos + 80
            w = "".join(sim.genome[lo_:hi_])
            try:
                want_h = _rs.apply_genome(w, pos - lo_, op)
                eq = [k for k, n in tab.items() if k != (pos, op) and k[1][:3] == op[:3] and abs(k[0] - pos) <= 30 and n == c * u
                      and _rs.apply_genome(w, k[0] - lo_, k[1]) == want_h]
            except Exception:  # noqa
                eq = []
            if eq:
                viol.append(V("indel-of-multi-allelic-record-placed-at-an-equivalent-position-in-a-repeat", variant=f"{pos}.{op}",
                              placed=f"{eq[0][0]}.{eq[0][1]}", gene=case.get("gene", "generated")))
                continue
        if got != c * u:
            viol.append(V(f"variant-support:{kind}" + (":one-record" if kind == "mnp" and style == "mnp_one" else ""),
                          variant=f"{pos}.{op}", copies=c, want=c * u, got=got,
                          near={str(k): v for k, v in tab.items() if abs(k[0] - pos) <= 2}))
        r = ref_at(s0, pos)
        want = (2 - refdrop[pos]) * u if kind != "ins" else None
        ok = r in (2 * u, (2 - c) * u) if kind == "ins" else r == want
        if not ok and got == c * u:
            viol.append(V(f"reference-support:{kind}", variant=f"{pos}.{op}", copies=c, got=r, want=want))
    # nothing else shows up as evidence, untouched sites stay homozygous reference
    stray = {k: v for k, v in tab.items() if k not in expected and k[0] != anchor
             and not any(k[0] == p + i for (p, o) in expected for i in range(len(o.split('>')[0]) if '>' in o else 1))}
    if stray and not viol:
        viol.append(V("stray-evidence", stray={str(k): v for k, v in list(stray.items())[:5]}))
    probe = free_pos(case["anchor"] + 77)
    if probe is not None and ref_at(s0, probe) != 2 * u:
        viol.append(V("untouched-site-not-homozygous-reference", pos=probe, got=ref_at(s0, probe), want=2 * u))

    # extras: ignored without failing the run, evidence identical
    if extras:
        vcf1 = write_vcf(os.path.join(d, "extra.vcf"), gene.chr, sim.L, samples, base_recs + extras)
        try:
            s1 = Sample(gene, Profile("user_provided", cn_solution=["1", "1"], vcf_sample_idx=idx), vcf1)
            t1 = evidence(s1, gene)
            ex_sites = {e[0] + i for e in extras for i in range(-1, 6)}
            a = {k: v for k, v in tab.items() if k[0] not in ex_sites}
            b = {k: v for k, v in t1.items() if k[0] not in ex_sites}
            shown = {k: v for k, v in t1.items() if k[0] in ex_sites}
            if a != b:
                viol.append(V("extras-change-other-evidence", diff=str(set(a.items()) ^ set(b.items()))[:300]))
            for key_ in directed:
                if t1.get(key_, 0):
                    viol.append(V("complex-record-counted-as-catalogued-indel", variant=f"{key_[0]}.{key_[1]}", support=t1[key_]))
            oddonly = all(e[3][idx] in ODDGT for e in extras)
            if shown and oddonly:
                viol.append(V("non-diploid-genotype-used", shown={str(k): v for k, v in shown.items()}))
        except AldyException as e:
            viol.append(V("extras-rejected", message=str(e)[:200]))
        final = vcf1
    else:
        final = vcf0

    # end to end
    disjoint = len(vars_) == 1 or vars_[0][2] == vars_[1][2] or not any(
        abs(a[0] - b[0]) < 8 for a in vars_[0][2] for b in vars_[1][2] if a != b)
    if not viol and disjoint and (len(vars_) == 2 or ref_major is not None):
        try:
            res = genotype(db, final, None, output_file=None, genome=build, solver="cbc", vcf_sample_idx=idx)
            sols = [s for v in res.values() for s in v]
            reported = [collections.Counter(a.major for a in s.solution) for s in sols]
            if planted_major not in reported:
                viol.append(V("planted-pair-not-called:" + "+".join(sorted(kinds)), planted=dict(planted_major), picks=picks,
                              reported=[dict(r) for r in reported][:3]))
        except AldyException as e:
            viol.append(V("genotype-failed", message=str(e)[:200]))
    return Result(viol, labels, nontrivial)


SHIPPED = ["nat2", "tpmt", "comt", "vkorc1", "nudt15", "ifnl3", "cyp2c19", "cyp2c9", "cyp2b6", "cyp3a5", "slco1b1", "ugt1a1", "cyp2d6", "g6pd"]


def strategy(tier):
    extra = st.tuples(st.sampled_from(FOREIGN + ODDGT), st.integers(0, 500)).map(list)

    def mk(kind):
        d = dict(base)
        if kind == "shipped":
            d["gene"] = st.sampled_from(SHIPPED[:8] if tier == "quick" else SHIPPED)
            d["alleles"] = st.lists(st.integers(0, 2000), min_size=1, max_size=2)
        else:
            d["db"] = gen_db.db_specs(sv=False, pseudo=False, kinds=["snp", "snp", "mnp", "ins", "del"], gaps=True, twins=True, chrs=("7", "7", "X"))
        return st.fixed_dictionaries(d)

    base = {
        "build": st.sampled_from(["hg19", "hg38"]),
        "alleles": st.lists(st.integers(0, 30), min_size=1, max_size=2),
        "idx": st.sampled_from([0, 0, 1, 2, 3]),
        "nsamp": st.integers(1, 4),
        "phased": st.booleans(),
        "flip": st.booleans(),
        "mnp_style": st.sampled_from(["mnp_one", "adjacent"]),
        "refmismatch": st.sampled_from([False, False, True]),
        "pad": st.sampled_from([0, 0, 1, 3]),
        "norm": st.booleans(),
        "merge": st.booleans(),
        "twinpick": st.booleans(),
        "extras": st.lists(extra, max_size=3),
        "anchor": st.integers(0, 300),
        "sim_seed": st.integers(0, 10 ** 6),
    }
    return st.sampled_from(["gen"] * (11 if tier == "quick" else 3) + ["shipped"]).flatmap(mk)


def budget(tier):
    return {"examples": 480 if tier == "quick" else 8000, "shards": 16}
