"""C03 - gene-structure (copy number) calls are well-formed and optimal."""
import collections
import os

from hypothesis import strategies as st

from lib import gen_db, gen_sol, refmodels
from lib.runner import Result, V, scratch

ID = "C03"
CASE_TIMEOUT = 200
RULE = ("model cases: gene (toy, CYP2A6, CYP2D6, GSTM1 or generated with pseudogene / fusions / deletion / custom deletions) x planted "
        "structure of 0-5 configurations (also ones the model cannot express) + additive noise <= 0.5 on a 0.01 grid x max copy number "
        "3-6 x gap in {0,0.1,0.3} x optional long-read fusion support around the documented cut, solved by solve_cn_model and compared "
        "with an exhaustive count-vector enumerator; route cases: user-supplied lists (valid / unknown names), genes without structural "
        "alleles, VCF input through genotype(), male x chromosome; non-trivial = >= 3 admissible structures within 2x of the optimum or a "
        "route case exercising a rejection / the male rule; distinct = case JSON")
ASSUMPTIONS = [
    "scores compared at 1e-4; structures within 2e-4 of the gap bound are not judged",
    "a reported score above the structure's best explanation is accepted only if every cheaper explanation contains (slot-wise) an explanation of another reported structure that scores no worse (the exclusion-cut allowance of the statement)",
    "exome route is exercised through the do_copy_number switch it sets (shipped profiles do not contain generated genes)",
]
EXPLANATION = "differential vs exhaustive enumerator of the documented structure model + route predicates"

SHIPPED = ["toy", "cyp2a6", "cyp2d6", "gstm1"]


def fold(expl, names, default, dele):
    comp, extra, ps = expl
    st_ = []
    for n, c in zip(names, comp):
        if n != dele:
            st_ += [n] * c
    if extra:
        st_ += [default[0]] * extra
    return tuple(sorted(st_))


def run_model(case):
    from aldy.profile import Profile
    from aldy.cn import solve_cn_model
    from aldy.gene import CNConfigType

    # `gene` is the object handed to aldy; `pristine` is loaded separately, never handed to aldy, and is what the reference
    # model reads the catalogue from (a call that damages the catalogue must not take the oracle with it)
    if case["gene"] == "gen":
        gene = gen_sol.generated(case["db"], case["build"], "c03")
        pristine = gen_sol.generated(case["db"], case["build"], "c03p")
    else:
        gene = gen_sol.shipped(case["gene"], case["build"])
        pristine = gen_sol.shipped(case["gene"], case["build"], tag="pristine")
    if len(pristine.cn_configs) < 2:
        return Result([], ["no-structural-allele"], False)
    prof = Profile("t")
    prof.gap = case["gap"]
    max_cn = case["max_cn"]
    names = list(pristine.cn_configs)
    dele = pristine.deletion_allele()
    has_p = len(pristine.regions) > 1
    # planted structure -> exact depths -> noise
    pl = [names[i % len(names)] for i in case["planted"]]
    cov = {}
    noise = case["noise"]
    for k, r in enumerate(pristine.unique_regions):
        g = 0
        p = 0
        for ci, c in enumerate(pl):
            cn = pristine.cn_configs[c].cn
            g += cn[0].get(r, 0)
            if has_p:
                p += cn[1].get(r, 0) - (1 if ci >= 2 and pristine.cn_configs[c].kind == CNConfigType.DEFAULT else 0)
        ng, np_ = noise[(2 * k) % len(noise)], noise[(2 * k + 1) % len(noise)]
        cov[r] = (max(0.0, round(g + ng / 100.0, 2)), max(0.0, round(p + np_ / 100.0, 2)) if has_p else 0.0)
    fs = None
    if case["fusion_support"] is not None:
        fus = [n for n in names if pristine.cn_configs[n].kind in (CNConfigType.LEFT_FUSION, CNConfigType.RIGHT_FUSION)]
        cut = 1 / (2 * max_cn)
        fs = {}
        for i, n in enumerate(fus):
            v = case["fusion_support"][i % len(case["fusion_support"])]
            if v >= 0:
                fs[n] = round(cut + v / 1000.0 - 0.005, 4) if v < 10 else v / 100.0
        if not fs:
            fs = None
    def judge(sols, fs):
        best, allx, rnames = refmodels.rcn(pristine, prof, max_cn, cov, fs)
        default = [n for n in rnames if pristine.cn_configs[n].kind == CNConfigType.DEFAULT]
        labels = [f"gene:{case['gene']}", f"gap:{case['gap']}", f"max_cn:{max_cn}", f"planted:{len(pl)}", "fusion-support" if fs else "no-fusion-support"]
        viol = []
        if not best:
            if sols:
                viol.append(V("solutions-but-no-admissible-structure", n=len(sols)))
            return Result(viol, labels + ["infeasible"], False)
        opt = min(v[0] for v in best.values())
        if not sols:
            viol.append(V("no-structure-reported", opt=opt))
            return Result(viol, labels, True)
        rep = {}
        for s in sols:
            k = tuple(sorted(s.solution.elements()))
            if k in rep:
                viol.append(V("structure-reported-twice", structure=k))
            rep[k] = s.score
            # region_cn = sum of configuration vectors
            want = [collections.Counter() for _ in pristine.cn_configs["1"].cn]
            for c in k:
                for gi, gd in enumerate(pristine.cn_configs[c].cn):
                    for r, v in gd.items():
                        want[gi][r] += v
            got = [collections.Counter({r: v for r, v in d.items() if v}) for d in s.region_cn]
            if got != [collections.Counter({r: v for r, v in d.items() if v}) for d in want]:
                viol.append(V("region_cn-not-sum-of-vectors", structure=k))
        rbest = min(rep.values())
        if abs(rbest - opt) > 1e-4:
            viol.append(V("best-reported-not-optimal", reported=rbest, optimum=opt, argmin=[k for k, v in best.items() if v[0] <= opt + 1e-6][:2]))
        nshadow = 0
        for k, sc in rep.items():
            if k not in best:
                viol.append(V("ill-formed-structure", structure=k, kinds=sorted({str(pristine.cn_configs[c].kind)[13:] for c in k})))
                continue
            if sc > (1 + prof.gap) * rbest + 1e-4:
                viol.append(V("reported-outside-gap", structure=k, score=sc, best=rbest, gap=prof.gap))
            exps = allx[k]
            if not any(abs(sc - e[0]) <= 1e-4 for e in exps):
                viol.append(V("score-is-no-explanation-of-structure", structure=k, score=sc, reference=best[k][0]))
                continue
            if sc > best[k][0] + 1e-4:
                nshadow += 1
                for e_sc, e in exps:
                    if e_sc >= sc - 1e-4:
                        continue
                    ok = False
                    for k2, sc2 in rep.items():
                        if k2 == k:
                            continue
                        for e2_sc, e2 in allx.get(k2, []):
                            if e2[0] == e[0] and e2[1] <= e[1] and e2[2] <= e[2] and e2_sc <= e_sc + 1e-4 and sc2 <= e_sc + 1e-4:
                                ok = True
                    if not ok:
                        viol.append(V("score-above-reference-without-shadowing", structure=k, score=sc, reference=best[k][0], cheaper=e))
                        break
        if nshadow:
            labels.append("shadowed")
        # completeness
        for k, (sc, e) in best.items():
            if sc < (1 + prof.gap) * opt - 2e-4 and k not in rep:
                ck = collections.Counter(k)
                if not any(not (collections.Counter(r) - ck) and rv <= sc + 1e-4 for r, rv in rep.items()):
                    viol.append(V("within-gap-structure-missing", structure=k, score=sc, opt=opt, gap=prof.gap, reported=len(rep)))
                    break
        close = sum(1 for v in best.values() if v[0] <= 2 * opt + 1e-9)
        labels.append(f"reported:{min(len(rep), 4)}")
        return Result(viol, labels, close >= 3)

    res = judge(solve_cn_model(gene, prof, gene.cn_configs, max_cn, cov, "cbc", None, fs), fs)
    if fs is not None:
        # history: the same Gene object is asked again without long-read support; the admissible set is the catalogue's
        # (read from the separately loaded object), whatever the earlier call filtered for itself
        r2 = judge(solve_cn_model(gene, prof, gene.cn_configs, max_cn, cov, "cbc", None, None), None)
        res.violations += [V("second-call:" + v["bucket"], **v["detail"]) for v in r2.violations]
        res.labels.append("second-call")
    return res


def run_route(case):
    import aldy.cn
    from aldy.gene import Gene
    from aldy.profile import Profile
    from aldy.common import AldyException
    from aldy.genotype import genotype
    from props import C16
    from lib import simreads

    d = scratch()
    db = os.path.join(d, "c03r.yml")
    gen_db.write(case["db"], db)
    gene = Gene(db, genome=case["build"])
    route = case["route"]
    labels = [f"route:{route}", f"chr:{gene.chr}", f"male:{case['male']}"]
    viol = []
    names = list(gene.cn_configs)
    if route == "user":
        lst = [names[i % len(names)] if i >= 0 else f"nope{-i}" for i in case["list"]]
        prof = Profile("u", cn_solution=lst, male=case["male"])
        bad = any(x not in gene.cn_configs for x in lst)
        try:
            res = aldy.cn.estimate_cn(gene, prof, None, "cbc")
            if bad:
                viol.append(V("unknown-configuration-accepted", given=lst))
            elif len(res) != 1 or collections.Counter(lst) != collections.Counter(dict(res[0].solution)) or res[0].score != 0:
                viol.append(V("user-structure-not-verbatim", given=lst, got=[dict(r.solution) for r in res], score=res[0].score if res else None))
        except AldyException:
            if not bad:
                viol.append(V("valid-user-structure-rejected", given=lst))
        return Result(viol, labels + (["rejection"] if bad else []), bad or len(lst) != 2)
    want = {"1": 1} if (case["male"] and gene.chr in ("X", "Y")) else {"1": 2}
    if route == "nocn":
        if case["force_off"]:
            gene.do_copy_number = False  # what the exome profile switch does
            labels.append("exome-switch")
        if gene.do_copy_number:
            return Result([], labels + ["has-structural-alleles"], False)
        prof = Profile("u", male=case["male"])
        res = aldy.cn.estimate_cn(gene, prof, None, "cbc")
        got = [dict(r.solution) for r in res]
        if got != [want]:
            viol.append(V("two-copy-default-wrong:nocn", got=got, want=want))
    else:  # vcf through genotype()
        sim = simreads.Sim(gene, seed=1)
        lo = gene._lookup_range[0] + 40
        while gene[lo] == "N":
            lo += 1
        ab = {"A": "C", "C": "G", "G": "T", "T": "A"}[gene[lo]]
        vcf = C16.write_vcf(os.path.join(d, "c03.vcf"), gene.chr, sim.L, ["S0"], [(lo, gene[lo], [ab], ["0/1"])])
        try:
            res = genotype(db, vcf, None, output_file=None, genome=case["build"], solver="cbc", male=case["male"])
            got = [dict(s.major_solution.cn_solution.solution) for v in res.values() for s in v]
            if not got or any(g != want for g in got):
                viol.append(V("two-copy-default-wrong:vcf" + (":male-sex-chromosome" if want == {"1": 1} else ""), got=got[:2], want=want))
        except AldyException as e:
            viol.append(V("vcf-route-failed", message=str(e)[:200]))
    return Result(viol, labels, want == {"1": 1})


SOLVER_BUCKETS = ("within-gap-structure-missing", "best-reported-not-optimal", "score-above-reference-without-shadowing",
                  "score-is-no-explanation-of-structure", "no-structure-reported")


def _cbc_itself_wrong(case):
    """Recorded finding KF-CBC: re-run the case and, at every solve of aldy's model, hand the exported model (protobuf) to a FRESH CBC and to
    SCIP through OR-Tools directly, bypassing aldy's solver wrapper.  True iff for some step both say optimal and CBC's objective is
    worse than SCIP's: the backend, not aldy's model or enumeration, returned a sub-optimal point as optimal."""
    from aldy import lpinterface
    from ortools.linear_solver import pywraplp, linear_solver_pb2

    orig = lpinterface.CBC.solve
    protos = []

    def solve(self, init=None):
        try:
            proto = linear_solver_pb2.MPModelProto()
            self.model.ExportModelToProto(proto)
            protos.append(proto.SerializeToString())
        except Exception:  # noqa  (probe only)
            pass
        return orig(self, init)

    lpinterface.CBC.solve = solve
    try:
        run_model(case)
    finally:
        lpinterface.CBC.solve = orig
    # the steps that end an enumeration first (a premature end loses within-gap structures), then a sample of the others
    order = list(range(len(protos) - 1, max(-1, len(protos) - 7), -1))
    rest = [i for i in range(len(protos)) if i not in order]
    order += rest[::max(1, len(rest) // 14)]
    import time as _t

    t0 = _t.time()
    for i in order:
        if _t.time() - t0 > 70:
            break
        proto = linear_solver_pb2.MPModelProto()
        proto.ParseFromString(protos[i])
        objs = {}
        for be in ("CBC", "SCIP"):
            s_ = pywraplp.Solver.CreateSolver(be)
            s_.LoadModelFromProto(proto)
            s_.SetTimeLimit(20000)
            if s_.Solve() == pywraplp.Solver.OPTIMAL:
                objs[be] = s_.Objective().Value()
        if len(objs) == 2 and objs["CBC"] > objs["SCIP"] + 1e-6:
            return dict(objs, step=i, steps=len(protos))
    return None


def run_case(case):
    if case["kind"] == "model":
        res = run_model(case)
        sv = [v for v in res.violations if v["bucket"].replace("second-call:", "") in SOLVER_BUCKETS]
        if sv and len(sv) == len(res.violations):
            wrong = _cbc_itself_wrong(case)
            if wrong:
                res.violations = [V("KF-CBC:backend-returns-suboptimal-point-as-optimal", original=[v["bucket"] for v in sv],
                                    cbc=wrong["CBC"], scip=wrong["SCIP"], step=wrong["step"], steps=wrong["steps"], detail=sv[0]["detail"])]
                res.labels.append("kf-cbc")
        return res
    return run_route(case)


def strategy(tier):
    def model_for(g):
        d = {
            "kind": st.just("model"), "gene": st.just(g), "build": st.sampled_from(["hg19", "hg38"]),
            "planted": st.lists(st.integers(0, 40), min_size=0, max_size=5),
            "noise": st.lists(st.integers(-50, 50), min_size=4, max_size=12),
            "max_cn": st.integers(3, 6), "gap": st.sampled_from([0, 0.1, 0.3]),
            "fusion_support": st.none() | st.lists(st.integers(-1, 60), min_size=1, max_size=4),
        }
        if g == "gen":
            d["db"] = gen_db.db_specs(gaps=False, pseudo=None, force_sv=True, stress=True, small=True, max_sites=4, max_alleles=4)
        return st.fixed_dictionaries(d)

    model = st.sampled_from(["toy", "gen", "gen", "cyp2a6", "gstm1", "gen", "toy", "cyp2d6"]).flatmap(model_for)
    route = st.fixed_dictionaries({
        "kind": st.just("route"), "route": st.sampled_from(["user", "user", "nocn", "vcf"]), "build": st.sampled_from(["hg19", "hg38"]),
        "db": gen_db.db_specs(gaps=False, small=True, max_sites=3, max_alleles=3, chrs=("7", "X", "Y")),
        "list": st.lists(st.integers(-2, 12), min_size=1, max_size=4), "male": st.booleans(), "force_off": st.booleans(),
    })
    return st.one_of(model, model, model, route)


def budget(tier):
    return {"examples": 640 if tier == "quick" else 12000, "shards": 16}
