"""C07 - copy-number signal is depth-normalised: a two-copy reference reads as 2.0."""
import os

import yaml
from hypothesis import strategies as st

from lib import gen_db, simreads
from lib.runner import Result, V, scratch
from props import C01

ID = "C07"
ISOLATE = True  # end-to-end solver calls: run every case in a killable child
RULE = ("case = generated database x planted sample S (any admissible structure, as in C01) x k in 2..5 x custom neutral window "
        "x profile route (profile BAM / profile file written like `aldy profile` and loaded again); relations checked per case: "
        "k-fold duplication invariance, gene-only scaling linearity, self-profile == 2.0, BAM-profile == file-profile, "
        "estimate_cn(k.S) == estimate_cn(S), empty neutral region rejected; non-trivial = non-default structure or k >= 3 or "
        "shifted neutral window; distinct = case JSON")
ASSUMPTIONS = ["simulated error-free reads; equality up to 1e-9 relative (the computation is a ratio of integer sums)",
               "structure scores compared at 1e-6"]
EXPLANATION = "metamorphic relations on Coverage.region_coverage and estimate_cn"


def rc_table(gene, sample):
    return {(gi, r): sample.coverage.region_coverage(gi, r) for gi, g in enumerate(gene.regions) for r in g}


def close(a, b):
    return abs(a - b) <= 1e-9 * max(1.0, abs(a), abs(b))


def run_case(case):
    from aldy.gene import Gene
    from aldy.sam import Sample
    from aldy.profile import Profile
    from aldy.common import AldyException, GRange
    from aldy.cn import estimate_cn

    d = scratch()
    db = os.path.join(d, "ga.yml")
    gen_db.write(case["db"], db)
    build = case["build"]
    gene = Gene(db, genome=build)
    copies = C01.plan(gene, case)
    if copies is None:
        return Result([], ["inadmissible"], False)
    sim = simreads.Sim(gene, seed=case["sim_seed"])
    # custom neutral window inside the stretch that carries neutral reads
    lo, hi = sim.cnr.start - 250 + case["nshift"], sim.cnr.end + 250
    ln = max(100, min(case["nlen"], hi - lo))
    cnr = GRange(gene.chr, lo, lo + ln)
    rl, k = case["rl"], case["k"]
    step = max(1, rl // case["depth"])
    cp = [(c, m) for c, m, _, _ in copies]
    S, KS, GS, P, E = (os.path.join(d, n) for n in ("s.bam", "ks.bam", "gs.bam", "p.bam", "e.bam"))
    # extra reads with deletions / insertions / soft clips / =,X inside the neutral window and inside the locus: depth
    # normalisation must treat them the same way in the profile, in the neutral depth and in the region depths
    import random as _r

    rg = _r.Random(case["sim_seed"] + 9)
    wide = gene.get_wide_region()

    def odd_reads(tag, lo_, hi_, n):
        out = []
        for i in range(n):
            a = rg.randrange(lo_, max(lo_ + 1, hi_ - 60))
            l1, d, l2 = rg.randrange(10, 30), rg.randrange(1, 9), rg.randrange(10, 30)
            kind = rg.choice(["D", "I", "S", "D", "EQ"])
            G = sim.genome
            if kind == "D":
                cig, seq = [(0, l1), (2, d), (0, l2)], G[a:a + l1] + G[a + l1 + d:a + l1 + d + l2]
            elif kind == "I":
                cig, seq = [(0, l1), (1, d), (0, l2)], G[a:a + l1] + "ACGTACGTA"[:d] + G[a + l1:a + l1 + l2]
            elif kind == "S":
                cig, seq = [(4, d), (0, l1 + l2)], "TTTTTTTTT"[:d] + G[a:a + l1 + l2]
            else:
                cig, seq = [(7, l1), (2, d), (7, l2)], G[a:a + l1] + G[a + l1 + d:a + l1 + d + l2]
            out.append((f"{tag}{i}", a, cig, seq))
        return out

    n_odd = case.get("odd", 0)
    odd_neutral = odd_reads("on", lo + 5, lo + ln - 5, n_odd)
    odd_gene = odd_reads("og", wide.start + 5, wide.end - 5, n_odd)

    def dup(reads, times):
        return [(f"{nm}x{t}", p_, c_, s_) for (nm, p_, c_, s_) in reads for t in range(times)]

    sim.write(S, sim.sample_reads(cp, rl, step) + odd_neutral + odd_gene)
    sim.write(KS, sim.sample_reads(cp, rl, step, neutral_k=2 * k, gene_k=k) + dup(odd_neutral, k) + dup(odd_gene, k))
    sim.write(GS, sim.sample_reads(cp, rl, step, neutral_k=2, gene_k=k) + odd_neutral + dup(odd_gene, k))
    sim.write(P, sim.sample_reads([("1", frozenset())] * 2, rl, step) + odd_neutral + odd_gene)
    sim.write(E, sim.sample_reads(cp, rl, step, skip=("neutral",)) + odd_gene)

    struct = tuple(sorted(c for c, _, maj, _ in copies if maj is not None))
    labels = [f"k:{k}", f"strand:{gene.strand:+d}", f"pseudo:{len(gene.regions) - 1}", f"route:{case['route']}",
              "default-structure" if struct == ("1", "1") else "non-default-structure", f"odd-cigar-reads:{case.get('odd', 0)}"]
    nontrivial = struct != ("1", "1") or k >= 3 or case["nshift"] > 0

    def profile(src):
        if case["route"] == "bam":
            return Profile.load(gene, src, cnr)
        regions = {(gene.name, r, gi): rng for gi, gr in enumerate(gene.regions) for r, rng in gr.items()}
        data = Profile.get_sam_profile_data(src, regions=regions, genome=build, cn_region=cnr)
        path = os.path.join(d, "prof.yml")
        with open(path, "w") as f:
            f.write(yaml.dump(data, default_flow_style=None))
        return Profile.load(gene, path)

    viol = []
    prof = profile(P)
    s_s = Sample(gene, prof, S)
    s_k = Sample(gene, profile(P), KS)
    s_g = Sample(gene, profile(P), GS)
    t_s, t_k, t_g = rc_table(gene, s_s), rc_table(gene, s_k), rc_table(gene, s_g)
    bad = {str(key): (t_s[key], t_k[key]) for key in t_s if not close(t_s[key], t_k[key])}
    if bad:
        viol.append(V("duplication-not-invariant", k=k, diffs=dict(list(bad.items())[:4])))
    bad = {str(key): (t_s[key], t_g[key]) for key in t_s if not close(k * t_s[key], t_g[key])}
    if bad:
        viol.append(V("gene-scaling-not-linear", k=k, diffs=dict(list(bad.items())[:4])))
    # one profile object serves several loads: the same sample read again with the SAME object gives the same depths
    t_r = rc_table(gene, Sample(gene, prof, S))
    bad = {str(key): (t_s[key], t_r[key]) for key in t_s if not close(t_s[key], t_r[key])}
    if bad:
        viol.append(V("depth-depends-on-earlier-load-with-the-same-profile-object", diffs=dict(list(bad.items())[:4])))
    # profile route equivalence (BAM vs file)
    other = dict(case, route="file" if case["route"] == "bam" else "bam")
    regions = {(gene.name, r, gi): rng for gi, gr in enumerate(gene.regions) for r, rng in gr.items()}
    if case["route"] == "bam":
        data = Profile.get_sam_profile_data(P, regions=regions, genome=build, cn_region=cnr)
        path = os.path.join(d, "prof2.yml")
        with open(path, "w") as f:
            f.write(yaml.dump(data, default_flow_style=None))
        prof2 = Profile.load(gene, path)
    else:
        prof2 = Profile.load(gene, P, cnr)
    t_o = rc_table(gene, Sample(gene, prof2, S))
    bad = {str(key): (t_s[key], t_o[key]) for key in t_s if not close(t_s[key], t_o[key])}
    if bad:
        viol.append(V("profile-file-vs-bam-differ", diffs=dict(list(bad.items())[:4])))
    # self profile: the sample the profile was generated from reads as exactly two copies
    for src, tag in ((S, "self-profile-sample"), (P, "self-profile-reference")):
        sp = profile(src)
        t = rc_table(gene, Sample(gene, sp, src))
        bad = {}
        for (gi, r), v in t.items():
            pd = sp.data[gene.name][r][gi]
            want = 2.0 if pd else 0.0
            if not close(v, want):
                bad[f"{gi}:{r}"] = (v, want, pd)
        if bad:
            viol.append(V(tag + "-not-2.0", diffs=dict(list(bad.items())[:4])))
    # loading the same profile BAM with another neutral window in between must not change anything (no state between loads)
    if case["route"] == "bam":
        cnr2 = GRange(gene.chr, lo + 40, lo + 40 + max(60, ln // 2))
        try:
            Profile.load(gene, P, cnr2)
            t_again = rc_table(gene, Sample(gene, Profile.load(gene, P, cnr), S))
            bad = {str(key): (t_s[key], t_again[key]) for key in t_s if not close(t_s[key], t_again[key])}
            if bad:
                viol.append(V("profile-depends-on-earlier-load-with-another-neutral-region", diffs=dict(list(bad.items())[:4])))
            sp2 = Profile.load(gene, P, cnr2)
            t2 = rc_table(gene, Sample(gene, sp2, P))
            bad = {f"{gi}:{r}": v for (gi, r), v in t2.items() if sp2.data[gene.name][r][gi] and not close(v, 2.0)}
            if bad:
                viol.append(V("self-profile-second-neutral-region-not-2.0", diffs=dict(list(bad.items())[:4])))
        except AldyException as e:
            viol.append(V("second-neutral-region-rejected", message=str(e)[:200]))
    # consequence: same structure call at any depth
    if gene.do_copy_number:
        labels.append("cn-called")
        try:
            a = {tuple(sorted(s.solution.elements())): s.score for s in estimate_cn(gene, prof, s_s.coverage, "cbc")}
            b = {tuple(sorted(s.solution.elements())): s.score for s in estimate_cn(gene, prof, s_k.coverage, "cbc")}
            if set(a) != set(b) or any(abs(a[x] - b[x]) > 1e-6 for x in a):
                viol.append(V("structure-depends-on-depth", at_1x={str(k_): v for k_, v in a.items()}, at_kx={str(k_): v for k_, v in b.items()}))
        except AldyException as e:
            viol.append(V("estimate-cn-exception", message=str(e)[:200]))
    # neutral region on ANOTHER chromosome, at coordinates that overlap the gene's: depths of different chromosomes stay apart
    if case.get("otherchr") and case["route"] == "bam":
        import copy as _copy

        sim9 = _copy.copy(sim)
        sim9.chrom = "9" if gene.chr != "9" else "10"
        a9 = max(10, wide.start + 10)
        cnr9 = GRange(sim9.chrom, a9, a9 + ln)
        X = os.path.join(d, "x.bam")
        two = [("1", frozenset())] * 2
        nreads = [r_ for c_ in range(2) for r_ in sim.tile(f"n9_{c_}", a9 - 150, a9 + ln + 150, {}, rl, step)]
        simreads.write_multi(X, [(sim, sim.sample_reads(two, rl, step, skip=("neutral",))), (sim9, nreads)])
        try:
            px = Profile.load(gene, X, cnr9)
            tx = rc_table(gene, Sample(gene, px, X))
            bad = {f"{gi}:{r}": v for (gi, r), v in tx.items() if px.data[gene.name][r][gi] and not close(v, 2.0)}
            if bad:
                viol.append(V("self-profile-with-neutral-region-on-another-chromosome-not-2.0", diffs=dict(list(bad.items())[:4])))
            labels.append("neutral-region-on-another-chromosome")
        except AldyException as e:
            viol.append(V("neutral-region-on-another-chromosome-rejected", message=str(e)[:200]))
    # empty neutral region is rejected
    try:
        Sample(gene, profile(P), E)
        viol.append(V("empty-neutral-region-accepted"))
    except AldyException:
        pass
    return Result(viol, labels, nontrivial)


def strategy(tier):
    return st.fixed_dictionaries({
        "db": gen_db.db_specs(),
        "build": st.sampled_from(["hg19", "hg38"]),
        "hap": st.lists(st.tuples(st.integers(0, 5), st.integers(0, 40)).map(list), min_size=2, max_size=2),
        "extra": st.lists(st.integers(0, 40), min_size=0, max_size=2),
        "rl": st.sampled_from([50, 100, 150, 250]),
        "depth": st.sampled_from([10, 20]),
        "k": st.integers(2, 5),
        "nshift": st.sampled_from([0, 0, 37, 120, 333]),
        "otherchr": st.booleans(),
        "nlen": st.sampled_from([1000, 400, 150, 777]),
        "route": st.sampled_from(["bam", "file"]),
        "odd": st.sampled_from([0, 3, 8]),
        "sim_seed": st.integers(0, 10 ** 6),
    })


def budget(tier):
    return {"examples": 320 if tier == "quick" else 6000, "shards": 16}


# ------------------------------------------------------------------ shipped NA10860 BAMs: exact version of the "approximately 2.0" clause
def run_na10860(case):
    """Profile generated from NA10860 itself, then NA10860 normalised with it: every region must read exactly
    2 x (depth of eligible reads / depth of all aligned reads) x (neutral depth of all reads / neutral depth of eligible reads),
    both depths computed by the independent CIGAR interpreter - the profile counts every aligned read, the sample only eligible ones."""
    import collections
    import pysam
    from aldy.sam import Sample
    from aldy.profile import Profile
    from aldy.common import script_path
    from lib import gen_sol, refpile

    gene = gen_sol.shipped("cyp2d6", case["build"])
    path = script_path("aldy.tests.resources/" + case["file"])
    regions = {(gene.name, r, gi): rng for gi, gr in enumerate(gene.regions) for r, rng in gr.items()}
    data = Profile.get_sam_profile_data(path, regions=regions, genome=case["build"])
    d = scratch()
    pf = os.path.join(d, "na.yml")
    with open(pf, "w") as f:
        f.write(yaml.dump(data, default_flow_style=None))
    prof = Profile.load(gene, pf)
    s = Sample(gene, prof, path)
    cnr = prof.cn_region
    inv = {v: k for k, v in refpile.CODES.items()}
    d_all, d_el = collections.Counter(), collections.Counter()
    wide = gene.get_wide_region()
    with pysam.AlignmentFile(path) as f:
        prefix = "chr" if ("chr" + gene.chr) in f.references else ""
        for r in f.fetch(until_eof=True):
            if r.is_unmapped or not r.cigartuples or r.reference_name != prefix + gene.chr:
                continue
            rd = {"pos": r.reference_start, "cig": [(inv[o], n) for o, n in r.cigartuples], "seq": r.query_sequence or "",
                  "qual": [0] * len(r.query_sequence or ""), "flag": r.flag, "mq": r.mapping_quality}
            al, de, _, _ = refpile.walk(rd) if rd["seq"] else ([], [], [], [])
            if not rd["seq"]:
                # reads without stored sequence still count for depth: walk reference positions only
                p = rd["pos"]
                cov = []
                for o, n in rd["cig"]:
                    if o in "M=XD":
                        cov += list(range(p, p + n))
                        p += n
                    elif o == "N":
                        p += n
                pos = cov
            else:
                pos = [p for p, _, _ in al] + list(de)
            elig_gene = refpile.eligible(rd)
            elig_neutral = not (r.flag & refpile.SUPPL)
            for p in pos:
                d_all[p] += 1
                if elig_gene:
                    d_el[("g", p)] += 1
                if elig_neutral:
                    d_el[("n", p)] += 1
    n_all = sum(d_all[p] for p in range(cnr.start, cnr.end))
    n_smp = sum(d_el[("n", p)] for p in range(cnr.start, cnr.end))
    viol = []
    bad = {}
    for gi, gr in enumerate(gene.regions):
        for r, rng in gr.items():
            pa = sum(d_all[p] for p in range(rng.start, rng.end))
            pe = sum(d_el[("g", p)] for p in range(rng.start, rng.end))
            want = (n_all / n_smp) * pe / (pa / 2) if pa else 0.0
            got = s.coverage.region_coverage(gi, r)
            if not close(got, want):
                bad[f"{gi}:{r}"] = (got, want)
    if bad:
        viol.append(V("na10860-self-profile-differs-from-independent-pileup", diffs=dict(list(bad.items())[:5]), file=case["file"]))
    vals = [s.coverage.region_coverage(gi, r) for gi, gr in enumerate(gene.regions) for r in gr if data[gene.name][r][gi]]
    if vals and not all(1.8 <= v <= 2.0 + 1e-9 for v in vals):
        viol.append(V("na10860-self-profile-not-about-2.0", lo=min(vals), hi=max(vals)))
    return Result(viol, ["shipped-bam:" + case["file"]], True, info={"min": min(vals), "max": max(vals)})


_gen_run_case = run_case


def run_case(case):  # noqa
    if case.get("kind") == "na10860":
        return run_na10860(case)
    return _gen_run_case(case)


def enum_cases(tier):
    return [{"kind": "na10860", "file": "NA10860.bam", "build": "hg19"}, {"kind": "na10860", "file": "NA10860_hg38.bam", "build": "hg38"}]
