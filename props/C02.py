"""C02 - major star-allele calls are consistent, optimal and complete."""
import collections
import glob
import os
import random

from hypothesis import strategies as st
from natsort import natsorted

from lib import gen_db, gen_sol, gen_evid, refmodels
from lib.runner import Result, V, REPO

ID = "C02"
CASE_TIMEOUT = 120
RULE = ("optimality part: toy gene and generated databases (<= 8 majors) x structure of 1-4 copies (fusions / deletion included) x planted "
        "alleles x per-copy depth x multiplicative noise in [0.6,1.4] x optional extra (novel / competing) functional variants x dropped "
        "sites x gap in {0,0.1,0.5}; estimate_major compared with an exhaustive enumerator over allele multisets. Noise-free part: pairs "
        "of catalogued default-structure major alleles of every shipped gene and build (a stride sample in the quick tier, all pairs in "
        "the thorough tier) plus drawn 1-4 copy multisets incl. fused / deletion structures. Non-trivial = (optimality) >= 2 admissible "
        "multisets and a supported functional site, (catalogue) the pair is not *1/*1; distinct = case JSON / pair")
ASSUMPTIONS = ["scores at 1e-4; combinations within 2e-4 of the gap bound are not judged",
               "noise-free pairs whose core-variant footprints overlap (same position, non-insertion) are counted and not held to error zero",
               "enumeration capped at 2e5 multisets per case (larger cases are labelled and only the invariants are judged)"]
EXPLANATION = "differential vs exhaustive allele-multiset enumerator (R-MAJ) + noise-free sweep over shipped catalogues"


def judge(gene, prof, raw, cn, sols, planted=None, noise_free=False, labels=None, indels=None):
    """All clauses for one estimate_major result."""
    from aldy.gene import Mutation

    viol = []
    labels = labels if labels is not None else []
    try:
        cands, ref, t2 = refmodels.rmaj(gene, prof, raw, cn, indels=indels)
    except OverflowError:
        labels.append("enumeration-capped")
        cands, ref, t2 = None, None, None

    def cnt(p, o):
        return len(t2.get(p, {}).get(o, [])) if t2 is not None else None

    rep = {}
    for s in sols:
        als = tuple(sorted(a.major for a in s.solution.elements()))
        key = (als, tuple(sorted(s.added)))
        if key in rep:
            viol.append(V("combination-reported-twice", combination=str(key)[:200]))
        rep[key] = s.score
        # per configuration copies
        per = collections.Counter(gene.alleles[a].cn_config for a in als)
        if per != collections.Counter(dict(cn.solution)):
            viol.append(V("configuration-copy-count", called=dict(per), structure=dict(cn.solution)))
        if len(set(s.added)) != len(s.added):
            viol.append(V("novel-listed-twice", added=[str(m) for m in s.added]))
        bp = collections.Counter(m.pos for m in s.added if not m.op.startswith("ins"))
        if any(v > 1 for v in bp.values()):
            viol.append(V("two-novel-variants-at-one-position", added=[str(m) for m in s.added]))
        if t2 is not None:
            obs = [Mutation(*m) for m in gene.mutations if gene.is_functional(m) and cnt(m[0], m[1]) > 0]
            for m in obs:
                car = any(m in gene.alleles[a].func_muts for a in als)
                nov = m in s.added
                if car == nov:
                    viol.append(V("carried-xor-novel:" + ("both" if car else "neither"), variant=str(m), alleles=als))
                    break
    if ref is None:
        return viol
    if not ref:
        if rep:
            viol.append(V("solutions-but-no-admissible-combination", n=len(rep)))
        return viol
    best = min(ref.values())
    labels.append(f"admissible:{min(len(ref), 5)}")
    if not rep:
        viol.append(V("no-solution-but-admissible-combinations-exist", best=best, n=len(ref)))
        return viol
    gap = prof.gap
    if abs(min(rep.values()) - best) > 1e-4:
        viol.append(V("best-reported-not-optimal", reported=min(rep.values()), optimum=best))
    for k, v in rep.items():
        if k not in ref:
            viol.append(V("reported-combination-inadmissible", combination=str(k)[:200]))
        elif abs(v - ref[k]) > 1e-4:
            viol.append(V("score-differs-from-fit-error", combination=str(k)[:200], got=v, want=ref[k]))
    exp = {k for k, v in ref.items() if v <= (1 + gap) * best - 2e-4}
    may = {k for k, v in ref.items() if v <= (1 + gap) * best + 2e-4}
    if exp - set(rep):
        viol.append(V("within-gap-combination-missing", missing=[str(k)[:120] for k in sorted(exp - set(rep))][:3], gap=gap, best=best))
    if set(rep) - may - {k for k in rep if k not in ref}:
        viol.append(V("reported-combination-outside-gap", extra=[str(k)[:120] for k in sorted(set(rep) - may)][:3], gap=gap, best=best))
    if noise_free and planted is not None:
        pk = [k for k in rep if k[0] == planted]
        if not pk:
            viol.append(V("planted-combination-not-reported", planted=planted, reported=[str(k)[:80] for k in rep][:4]))
        elif min(rep[k] for k in pk) > 1e-6:
            viol.append(V("planted-combination-has-error", planted=planted, score=min(rep[k] for k in pk)))
    return viol


def run_opt(case):
    from aldy.profile import Profile
    from aldy.solutions import CNSolution
    from aldy.major import estimate_major

    if case["gene"] == "gen":
        gene = gen_sol.generated(case["db"], case["build"], "c02")
    else:
        gene = gen_sol.shipped("toy", case["build"])
    prof = Profile("t")
    prof.gap = case["gap"]
    rng = random.Random(case["seed"])
    dele = gene.deletion_allele()
    confs = [c for c in gene.cn_configs if c != dele]
    struct = [confs[i % len(confs)] for i in case["struct"]]
    by = {c: natsorted(a for a in gene.alleles if gene.alleles[a].cn_config == c) for c in confs}
    if any(not by[c] for c in struct):
        return Result([], ["configuration-without-allele"], False)
    cn = CNSolution(gene, 0, struct)
    sel = [by[c][rng.randrange(len(by[c]))] for c in struct]
    copies = [(a, {tuple(m) for m in gene.alleles[a].func_muts}) for a in sel]
    fsites = [m for m in gene.mutations if gene.is_functional(m)]
    extra = {}
    for j in case["extra"]:
        if fsites:
            m = fsites[j % len(fsites)]
            if cn.position_cn(m[0]) > 0:
                extra[m] = 1
    noise = (0.6, 1.4) if case["noisy"] else (1.0, 1.0)
    if case["depth"] >= 1000 and case["noisy"]:
        noise = (0.9993, 1.0007)  # deep coverage, a read or two off: combinations whose errors differ by 1e-3 .. 1e-2
    raw = gen_evid.planted_table(gene, copies, case["depth"], fsites, rng, noise, extra, drop=case["drop"] / 100.0)
    # weak evidence: a few reads of a functional variant (between the two filter thresholds or below them)
    for j, n in case.get("weak", []):
        if fsites:
            m = fsites[j % len(fsites)]
            if cn.position_cn(m[0]) > 0 and m[1] not in raw.get(m[0], {}):
                if case["depth"] >= 1000:
                    n = case["depth"] // 2 + n - 6  # half a copy, a few reads more or less: two calls almost equally good
                raw.setdefault(m[0], {})[m[1]] = [(60, 60)] * n
    # stray evidence: reads showing a base change that is NOT catalogued, at the position of a catalogued core variant
    stray = 0
    for j, n in case.get("stray", []):
        if fsites:
            m = fsites[j % len(fsites)]
            known = {o for (p_, o) in gene.mutations if p_ == m[0]}
            ref = gene[m[0]]
            alts = [b for b in "ACGT" if b != ref and f"{ref}>{b}" not in known]
            if cn.position_cn(m[0]) > 0 and alts and ref in "ACGT":
                raw.setdefault(m[0], {})[f"{ref}>{alts[(j + n) % len(alts)]}"] = [(60, 60)] * n
                stray += 1
    # re-alignment table, as the BAM route builds it for catalogued insertions / deletions: (reads not supporting, reads supporting);
    # the number of informative reads differs from the pile-up depth (reads that reach the site without spanning the indel)
    indels = None
    if case.get("indel_table"):
        indels = {}
        fr = [0.5, 0.8, 1.0, 1.3][case["indel_table"] % 4]
        for (p, o) in gene.mutations:
            if o[:3] in ("ins", "del") and "ins" not in o[3:]:
                on = len(raw.get(p, {}).get(o, []))
                tot = sum(len(v) for oo, v in raw.get(p, {}).items() if not oo.startswith("ins"))
                if on:
                    indels[(p, o)] = (max(0, int(round((tot - (on if o.startswith("del") else 0)) * fr))), on)
        if not indels:
            indels = None
    if indels is None:
        cov = gen_evid.coverage_of(gene, prof, raw)
    else:
        from aldy.coverage import Coverage

        cov = Coverage(gene, prof, None, {p: {o: list(v) for o, v in ops.items()} for p, ops in raw.items()}, dict(indels), {})
    sols = estimate_major(gene, cov, cn, "cbc")
    labels = [f"gene:{case['gene']}", f"gap:{case['gap']}", f"copies:{len(struct)}", "noisy" if case["noisy"] else "exact",
              "indel-realignment-table" if indels else "no-indel-table", "deep" if case["depth"] >= 1000 else "shallow",
              "weak-evidence" if case.get("weak") else "no-weak", "stray-evidence" if stray else "no-stray",
              "novel-evidence" if extra else "no-novel", "fusion" if any(c != "1" for c in struct) else "default-only"]
    nf = not case["noisy"] and not extra and not case["drop"] and not case.get("weak") and not stray
    viol = judge(gene, prof, raw, cn, sols, planted=tuple(sorted(sel)), noise_free=nf and not overlapping(copies) and not indels, labels=labels,
                 indels=indels)
    if case.get("again") is not None:
        # history: the SAME evidence object is asked again under another structure (what the pipeline does for every reported
        # structure); the answer must be the one a first call would give (reference = enumerator on the raw table)
        k = case["again"]
        struct2 = (struct + [confs[k % len(confs)]]) if (k % 2 or len(struct) == 1) else struct[:-1]
        if len(struct2) <= 4 and all(by[c] for c in struct2):
            cn2 = CNSolution(gene, 0, struct2)
            l2 = []
            v2 = judge(gene, prof, raw, cn2, estimate_major(gene, cov, cn2, "cbc"), labels=l2, indels=indels)
            viol = viol + [V("second-structure:" + v["bucket"], **v["detail"]) for v in v2]
            labels.append("second-structure")
    if any(s.added for s in sols):
        labels.append("novel-reported")
    labels.append(f"reported:{min(len(sols), 4)}")
    adm = [l for l in labels if l.startswith("admissible:")]
    nontrivial = bool(raw) and bool(adm) and adm[0] != "admissible:1"
    return Result(viol, labels, nontrivial)


def overlapping(copies):
    pos = collections.defaultdict(set)
    for _, ms in copies:
        for p, o in ms:
            if not o.startswith("ins"):
                pos[p].add(o)
    return any(len(v) > 1 for v in pos.values())


def run_pairs(case):
    from aldy.profile import Profile
    from aldy.solutions import CNSolution
    from aldy.major import estimate_major

    gene = gen_sol.shipped(case["gene"], case["build"])
    prof = Profile("t")
    majors = natsorted(a for a in gene.alleles if gene.alleles[a].cn_config == "1")
    fsites = [m for m in gene.mutations if gene.is_functional(m)]
    viol = []
    labels = [f"gene:{case['gene']}"]
    n_nt = 0
    cn = CNSolution(gene, 0, ["1", "1"])
    for i, j in case["pairs"]:
        sel = [majors[i % len(majors)], majors[j % len(majors)]]
        copies = [(a, {tuple(m) for m in gene.alleles[a].func_muts}) for a in sel]
        ov = overlapping(copies)
        sites = sorted({m for _, ms in copies for m in ms})
        raw = gen_evid.planted_table(gene, copies, 20, sites)
        cov = gen_evid.coverage_of(gene, prof, raw)
        sols = estimate_major(gene, cov, cn, "cbc")
        lab = []
        v = judge(gene, prof, raw, cn, sols, planted=tuple(sorted(sel)), noise_free=not ov, labels=lab)
        if ov:
            labels.append("overlapping-footprints")
        if any(c[1] for c in copies):
            n_nt += 1
        for x in v:
            x["detail"]["pair"] = sel
        viol += v
        if viol:
            break
    seen, uniq = set(), []
    for v in viol:
        if v["bucket"] not in seen:
            seen.add(v["bucket"])
            uniq.append(v)
    return Result(uniq, sorted(set(labels)), n_nt > 0, info={"pairs": len(case["pairs"]), "nontrivial_pairs": n_nt})


def run_multi(case):
    """Noise-free 1-4 copy multisets incl. fused / deletion structures on shipped genes with structural alleles."""
    from aldy.profile import Profile
    from aldy.solutions import CNSolution
    from aldy.major import estimate_major

    gene = gen_sol.shipped(case["gene"], case["build"])
    prof = Profile("t")
    rng = random.Random(case["seed"])
    dele = gene.deletion_allele()
    confs = [c for c in gene.cn_configs if c != dele]
    by = {c: natsorted(a for a in gene.alleles if gene.alleles[a].cn_config == c) for c in confs}
    confs = [c for c in confs if by[c]]
    struct = [confs[i % len(confs)] if k else "1" for k, i in enumerate(case["struct"])]
    cn = CNSolution(gene, 0, struct)
    sel = [by[c][rng.randrange(len(by[c]))] for c in struct]
    copies = [(a, {tuple(m) for m in gene.alleles[a].func_muts}) for a in sel]
    sites = sorted({m for _, ms in copies for m in ms})
    raw = gen_evid.planted_table(gene, copies, 20, sites)
    cov = gen_evid.coverage_of(gene, prof, raw)
    sols = estimate_major(gene, cov, cn, "cbc")
    labels = [f"gene:{case['gene']}", f"copies:{len(struct)}", "fusion" if any(c != "1" for c in struct) else "default-only", "multi"]
    ov = overlapping(copies)
    viol = judge(gene, prof, raw, cn, sols, planted=tuple(sorted(sel)), noise_free=not ov, labels=labels)
    return Result(viol, labels, any(ms for _, ms in copies))


def run_case(case):
    if case["kind"] == "opt":
        return run_opt(case)
    if case["kind"] == "pairs":
        return run_pairs(case)
    return run_multi(case)


def enum_cases(tier):
    """Catalogue pairs: per gene and build the list of (i <= j) pairs over default-structure majors, chunked."""
    from aldy.gene import Gene

    out = []
    genes = sorted(os.path.basename(p)[:-4] for p in glob.glob(os.path.join(REPO, "aldy", "resources", "genes", "*.yml")))
    big = {"cyp2d6", "dpyd", "ryr1", "g6pd"}
    for g in genes:
        n = len([a for a in gen_sol.shipped(g, "hg19").alleles.values() if a.cn_config == "1"])
        pairs = [(i, j) for i in range(n) for j in range(i, n)]
        if tier == "quick":
            limit = 24 if g in big else 60
        else:
            limit = 3000 if g in big else len(pairs)
        if len(pairs) > limit:
            stride = len(pairs) / float(limit)
            pairs = [pairs[int(k * stride)] for k in range(limit)]
        for b in ("hg19", "hg38"):
            chunk = 12 if g in big else 30
            for k in range(0, len(pairs), chunk):
                out.append({"kind": "pairs", "gene": g, "build": b, "pairs": [list(p) for p in pairs[k:k + chunk]]})
    return out


def strategy(tier):
    def opt_for(g):
        d = {"kind": st.just("opt"), "gene": st.just(g), "build": st.sampled_from(["hg19", "hg38"]),
             "struct": st.lists(st.integers(0, 9), min_size=1, max_size=4), "depth": st.sampled_from([10, 20, 30, 10, 20, 30, 2000]),
             "noisy": st.booleans(), "extra": st.lists(st.integers(0, 30), max_size=2), "drop": st.sampled_from([0, 0, 10, 30]),
             "gap": st.sampled_from([0, 0.1, 0.5]), "seed": st.integers(0, 10 ** 6),
             "weak": st.lists(st.tuples(st.integers(0, 30), st.integers(1, 12)).map(list), max_size=2),
             "again": st.sampled_from([None, None, 0, 1, 2, 3]), "indel_table": st.sampled_from([0, 0, 1, 2, 3, 4]),
             "stray": st.sampled_from([[], [], None]).flatmap(
                 lambda v: st.just([]) if v is not None else st.lists(st.tuples(st.integers(0, 30), st.integers(1, 25)).map(list), min_size=1, max_size=2))}
        if g == "gen":
            d["db"] = gen_db.db_specs(gaps=False, pseudo=True, force_sv=True, small=True, max_sites=7, max_alleles=5, twins=True, orphan_core=True)
        return st.fixed_dictionaries(d)

    opt = st.sampled_from(["toy", "gen", "gen"]).flatmap(opt_for)
    multi = st.fixed_dictionaries({"kind": st.just("multi"), "gene": st.sampled_from(["cyp2d6", "cyp2a6", "gstm1", "slco1b1", "cyp2c19"]),
                                   "build": st.sampled_from(["hg19", "hg38"]), "struct": st.lists(st.integers(0, 20), min_size=1, max_size=4),
                                   "seed": st.integers(0, 10 ** 6)})
    return st.one_of(opt, opt, opt, opt, opt, multi)


def budget(tier):
    return {"examples": 800 if tier == "quick" else 16000, "shards": 16}
