"""C15 - calls are backed by high-quality reads; low-quality reads are ignored."""
import collections
import random

from hypothesis import strategies as st
from natsort import natsorted

from lib import gen_db, gen_sol, gen_evid
from lib.runner import Result, V

ID = "C15"
ISOLATE = True
CASE_TIMEOUT = 60
RULE = ("case = gene (toy, generated, small shipped) x fixed structure x planted alleles x noisy table of qualifying observations x two "
        "different sets of non-qualifying observations (below min_quality or below min_mapq) added anywhere - at catalogue sites of "
        "candidate alleles, as whole new variant keys, as extra reference reads - x thresholds min_quality/min_mapq in 0-40, min_coverage "
        "1-10, threshold 0.1-0.9; estimate_major and estimate_minor are run on the qualifying-only table and on both polluted tables; "
        "non-trivial = the pollution touches a catalogue site of a candidate allele and some variant passes the count thresholds only when "
        "non-qualifying reads are counted; distinct = case JSON")
ASSUMPTIONS = ["scores compared at 1e-9", "structure supplied by the caller (one structure per case), no phasing input (table-level call)"]
EXPLANATION = "metamorphic: inject/remove sub-threshold observations -> identical major and minor solutions; independent support predicate on every reported variant"


def summarize_major(sols):
    return sorted((tuple(sorted(a.major for a in s.solution.elements())), tuple(sorted(map(tuple, s.added))), round(s.score, 9)) for s in sols)


def summarize_minor(sols):
    return sorted((tuple(sorted((a.major, a.minor, tuple(sorted(map(tuple, a.added))), tuple(sorted(map(tuple, a.missing)))) for a in s.solution)),
                   round(s.score, 9)) for s in sols)


def run_sample(case):
    """Second layer: the same relation through Sample/genotype(): error-free reads of a planted genotype, plus reads of ANOTHER
    allele combination whose base qualities or mapping quality are below the thresholds."""
    import os
    import pysam
    from aldy.gene import Gene
    from aldy.genotype import genotype
    from aldy.common import AldyException
    from lib import simreads
    from lib.runner import scratch
    from props import C01

    d = scratch()
    db = os.path.join(d, "c15.yml")
    gen_db.write(case["db"], db)
    gene = Gene(db, genome=case["build"])
    dflt = natsorted(mn for a in gene.alleles.values() if a.cn_config == "1" for mn in a.minors)
    good = [simreads.allele_copy(gene, dflt[i % len(dflt)])[:2] for i in case["good"]]
    junk = [simreads.allele_copy(gene, dflt[i % len(dflt)])[:2] for i in case["junk"]]
    sim = simreads.Sim(gene, seed=case["seed"])
    rl, step = case["rl"], max(1, case["rl"] // 20)
    clean = sim.sample_reads(good, rl, step, skip=("neutral", "pseudo"))
    lowq = case["lowkind"]
    jr = []
    for (nm, pos, cig, sq) in sim.sample_reads(junk, rl, step * case["thin"], skip=("neutral", "pseudo")):
        if lowq == "mapq":
            jr.append(("j" + nm, pos, cig, sq, 0, 5, None))
        else:
            jr.append(("j" + nm, pos, cig, sq, 0, 60, pysam.qualitystring_to_array(chr(33 + 5) * len(sq))))
    b1, b2 = os.path.join(d, "clean.bam"), os.path.join(d, "polluted.bam")
    sim.write(b1, clean)
    sim.write(b2, clean + jr)
    out = []
    for b in (b1, b2):
        try:
            res = genotype(db, b, None, output_file=None, cn_solution=["1", "1"], genome=case["build"], solver="cbc", phase=case["phase"])
            sols = [x for v in res.values() for x in v]
            out.append((sorted((tuple(sorted((a.major, a.minor, tuple(sorted(map(tuple, a.added))), tuple(sorted(map(tuple, a.missing)))) for a in x.solution)),
                                round(x.score, 6), round(x.major_solution.score, 6)) for x in sols)))
        except AldyException as e:
            out.append("error:" + str(e)[:60])
    labels = ["sample-layer", "low:" + lowq, "phase" if case["phase"] else "nophase"]
    viol = []
    if out[0] != out[1]:
        same_alleles = not isinstance(out[0], str) and not isinstance(out[1], str) and [x[0] for x in out[0]] == [x[0] for x in out[1]]
        what = "scores" if same_alleles else "alleles"
        # NOT judged: the property quantifies over evidence tables handed to estimate_major / estimate_minor.  At the alignment level
        # two mechanisms outside those tables let sub-threshold reads through - phase records are collected from all reads, and
        # indel support comes from the realignment library's own counts - so divergences here are counted as observations only
        # (DESIGN.md 12.4) and never reported as violations.
        labels.append(f"observation:sample-layer-divergence:{what}:{lowq}:{'phase' if case['phase'] else 'nophase'}")
    differ = {tuple(m) for _, ms in good for m in ms} != {tuple(m) for _, ms in junk for m in ms}
    return Result(viol, labels, differ)


def run_case(case):
    if case.get("kind") == "sample":
        return run_sample(case)
    return run_table(case)


def run_table(case):
    from aldy.profile import Profile
    from aldy.solutions import CNSolution
    from aldy.major import estimate_major
    from aldy.minor import estimate_minor

    if case["gene"] == "gen":
        gene = gen_sol.generated(case["db"], case["build"], "c15")
    else:
        gene = gen_sol.shipped(case["gene"], case["build"])
    prof = Profile("t", min_quality=case["minq"], min_mapq=case["minmq"], min_coverage=case["mincov"], threshold=case["thr"] / 100.0)
    rng = random.Random(case["seed"])
    dele = gene.deletion_allele()
    confs = [c for c in gene.cn_configs if c != dele or case.get("with_del")]
    by = {c: natsorted(a for a in gene.alleles if gene.alleles[a].cn_config == c) for c in confs}
    confs = [c for c in confs if by[c]]
    struct = [confs[i % len(confs)] if k else "1" for k, i in enumerate(case["struct"])]
    if "1" not in by:
        return Result([], ["no-default-allele"], False)
    cn = CNSolution(gene, 0, struct)
    sel = []
    for c in struct:
        a = by[c][rng.randrange(len(by[c]))]
        mi = natsorted(gene.alleles[a].minors)
        sel.append((a, mi[rng.randrange(len(mi))]))
    copies = [(a, {tuple(m) for m in gen_evid.carried(gene, a, mn)}) for a, mn in sel]
    sites = sorted(gene.mutations)
    if len(sites) > 60:  # shipped genes: the planted alleles' sites plus a sample of others
        keep = {m for _, ms in copies for m in ms}
        keep |= set(rng.sample(sites, 40))
        sites = sorted(keep)
    good = (max(case["minmq"], 30), max(case["minq"], 30))
    raw = gen_evid.planted_table(gene, copies, case["depth"], sites, rng, (0.7, 1.3), qual=good)
    # a share of the qualifying observations sits exactly on the thresholds (they must count)
    for p, ops in raw.items():
        for o, v in ops.items():
            ops[o] = [(case["minmq"], case["minq"]) if rng.random() < 0.5 else x for x in v]

    # weak qualifying evidence: a few good reads of a catalogued variant (a fraction that may lie between the stage thresholds)
    nweak = 0
    weak_dir = False
    weak_stray = False
    for j, n in case.get("weak", []) if sites else []:
        p, o = sites[j % len(sites)]
        if cn.position_cn(p) > 0 and o not in raw.get(p, {}):
            raw.setdefault(p, {})[o] = [(case["minmq"], case["minq"])] * n
            nweak += 1

    if case.get("weak_directed"):
        # directed: a silent variant of a minor of a planted major that no planted copy carries, where the gene has fewer copies
        # than the structure has members, with a qualifying fraction between threshold/(members+0.5) and threshold/(copies there+0.5)
        th = case["thr"] / 100.0
        cand = sorted({tuple(m) for a, _ in sel for mi in gene.alleles[a].minors.values() for m in mi.neutral_muts}
                      - {m for _, ms in copies for m in ms})
        cand = [m for m in cand if 0 < cn.position_cn(m[0]) < cn.max_cn() and not m[1].startswith("ins")]
        if cand:
            p, o = cand[case["weak_directed"] % len(cand)]
            f = (th / (cn.max_cn() + 0.5) + th / (cn.position_cn(p) + 0.5)) / 2
            ref_n = len(raw.get(p, {}).get("_", [])) or int(case["depth"] * cn.position_cn(p))
            n = int(round(f * ref_n / max(1e-9, 1 - f)))
            if 0 < n and f < 1:
                raw.setdefault(p, {}).setdefault("_", [good] * ref_n)
                raw[p][o] = [(case["minmq"], case["minq"])] * n
                nweak += 1
                weak_dir = True

    if case.get("weak_stray"):
        # directed: a silent variant of a planted major's minor that no copy carries gets just enough qualifying reads to pass the
        # single-copy fraction of (reference + variant) reads, and a THIRD allele at the site gets a few qualifying reads - too few to
        # survive the noise step, enough to push the variant below the fraction of ALL qualifying reads at the site
        import math

        th = case["thr"] / 100.0
        cand = sorted({tuple(m) for a, _ in sel for mi in gene.alleles[a].minors.values() for m in mi.neutral_muts}
                      - {m for _, ms in copies for m in ms})
        cand = [m for m in cand if cn.position_cn(m[0]) > 0 and len(m[1]) == 3 and gene[m[0]] in "ACGT"
                and not any(q[0] == m[0] and q != m for q in gene.mutations)]
        if cand:
            p, o = cand[case["weak_stray"] % len(cand)]
            t = th / (cn.position_cn(p) + 0.5)
            R = len(raw.get(p, {}).get("_", [])) or int(case["depth"] * cn.position_cn(p))
            if t < 0.9:
                n = max(case["mincov"], int(math.ceil(t * R / (1 - t))))
                need = (n * (1 - t) - t * R) / t  # stray reads needed to push the variant below the fraction
                s_ = int(math.floor(need)) + 1
                tot = R + n + s_
                if s_ < max(case["mincov"], tot * th / prof.cn_max) and n < t * tot and n >= t * (R + n):
                    other = [b for b in "ACGT" if b != gene[p] and b != o[2]][0]
                    raw.setdefault(p, {}).setdefault("_", [good] * R)
                    raw[p][o] = [(case["minmq"], case["minq"])] * n
                    raw[p][f"{gene[p]}>{other}"] = [good] * s_
                    nweak += 1
                    weak_stray = True

    def bad_qual():
        opts = []
        if case["minq"] > 0:
            opts.append((60, rng.choice([case["minq"] - 1, rng.randrange(0, case["minq"])])))
        if case["minmq"] > 0:
            opts.append((rng.choice([case["minmq"] - 1, rng.randrange(0, case["minmq"])]), 60))
        return rng.choice(opts) if opts else None

    def pollute(seed):
        r2 = random.Random(seed)
        t = {p: {o: list(v) for o, v in ops.items()} for p, ops in raw.items()}
        touched_cat = False
        flips = False
        if bad_qual() is None:
            return t, False, False
        for _ in range(r2.randrange(1, 8)):
            kind = r2.choice(["cat", "cat", "novelkey", "ref", "anypos"])
            n = r2.randrange(1, 3 * case["depth"])
            if kind == "cat" and sites:
                p, o = sites[r2.randrange(len(sites))]
                if cn.position_cn(p) == 0:
                    continue
                t.setdefault(p, {}).setdefault(o, [])
                t[p][o] += [bad_qual() for _ in range(n)]
                touched_cat = True
                if len([x for x in t[p][o] if x[1] >= case["minq"] and x[0] >= case["minmq"]]) < case["mincov"] <= len(t[p][o]):
                    flips = True
            elif kind == "novelkey" and sites:
                p = sites[r2.randrange(len(sites))][0]
                ref = gene[p]
                if ref == "N":
                    continue
                o = f"{ref}>{r2.choice([c for c in 'ACGT' if c != ref])}"
                t.setdefault(p, {}).setdefault(o, [])
                t[p][o] += [bad_qual() for _ in range(n)]
            elif kind == "ref" and sites:
                p = sites[r2.randrange(len(sites))][0]
                t.setdefault(p, {}).setdefault("_", [])
                t[p]["_"] += [bad_qual() for _ in range(n)]
                touched_cat = True
            else:
                lo, hi = gene._lookup_range
                p = r2.randrange(lo, hi)
                t.setdefault(p, {}).setdefault("_", [])
                t[p]["_"] += [bad_qual() for _ in range(n)]
        return t, touched_cat, flips

    tA, touchA, flipA = pollute(case["seed"] + 1)
    tB, touchB, flipB = pollute(case["seed"] + 2)
    labels = [f"gene:{case['gene']}", f"copies:{len(struct)}", f"minq:{case['minq']}", f"minmq:{case['minmq']}"]
    if nweak:
        labels.append("weak-qualifying-evidence")
    if weak_dir:
        labels.append("silent-variant-with-fraction-between-the-two-copy-number-thresholds")
    if weak_stray:
        labels.append("variant-below-the-fraction-only-when-a-third-allele-is-counted")
    if any(cn.position_cn(p) < cn.max_cn() for p, _ in sites if cn.position_cn(p) > 0):
        labels.append("copy-number-varies-along-gene")
    viol = []
    res = {}
    covs = {}
    for tag, tab in (("clean", raw), ("A", tA), ("B", tB)):
        cov = gen_evid.coverage_of(gene, prof, tab)
        covs[tag] = cov
        majors = estimate_major(gene, cov, cn, "cbc")
        minors = estimate_minor(gene, cov, majors[:3], "cbc") if majors else []
        res[tag] = (summarize_major(majors), summarize_minor(minors), majors, minors)
    if case.get("requal"):
        # history: the thresholds are changed (public Profile.update) on the evidence object that has already been genotyped; the
        # next call must use the thresholds in force NOW = what a fresh object with those thresholds gives
        q2, mq2 = case["requal"]
        held = covs["A"]
        held.profile.update({"min_quality": q2, "min_mapq": mq2})
        mj = estimate_major(gene, held, cn, "cbc")
        mi = estimate_minor(gene, held, mj[:3], "cbc") if mj else []
        prof2 = Profile("t", min_quality=q2, min_mapq=mq2, min_coverage=case["mincov"], threshold=case["thr"] / 100.0)
        fresh = gen_evid.coverage_of(gene, prof2, tA)
        mj2 = estimate_major(gene, fresh, cn, "cbc")
        mi2 = estimate_minor(gene, fresh, mj2[:3], "cbc") if mj2 else []
        if (summarize_major(mj), summarize_minor(mi)) != (summarize_major(mj2), summarize_minor(mi2)):
            viol.append(V("quality-thresholds-of-an-earlier-call-still-in-force", thresholds=[case["minq"], case["minmq"]], changed_to=[q2, mq2],
                          held=str((summarize_major(mj), summarize_minor(mi)))[:300], fresh=str((summarize_major(mj2), summarize_minor(mi2)))[:300]))
        labels.append("thresholds-changed-on-held-evidence")
        held.profile.update({"min_quality": case["minq"], "min_mapq": case["minmq"]})
    for tag in ("A", "B"):
        if res[tag][0] != res["clean"][0]:
            viol.append(V("low-quality-reads-change-major-solutions", clean=str(res["clean"][0])[:300], polluted=str(res[tag][0])[:300]))
            break
        if res[tag][1] != res["clean"][1]:
            viol.append(V("low-quality-reads-change-minor-solutions", clean=str(res["clean"][1])[:300], polluted=str(res[tag][1])[:300]))
            break
    # support predicate on the polluted table A (qualifying counts only)
    def nq(p, o):
        return len([x for x in tA.get(p, {}).get(o, []) if x[1] >= case["minq"] and x[0] >= case["minmq"]])

    def totq(p):
        return sum(nq(p, o) for o in tA.get(p, {}) if not o.startswith("ins"))

    def supported(m):
        p, o = m
        n = nq(p, o)
        th = case["thr"] / 100.0
        c = cn.position_cn(p)
        return n >= max(case["mincov"], th * totq(p) / prof.cn_max) and n >= max(case["mincov"], th * totq(p) / (c + 0.5))

    _, _, majors, minors = res["A"]
    for s in majors:
        for a in s.solution:
            for m in gene.alleles[a.major].func_muts:
                if not supported(tuple(m)):
                    viol.append(V("called-major-has-unsupported-core-variant", allele=a.major, variant=str(m), n_q=nq(*m), tot_q=totq(m[0])))
                    break
        for m in s.added:
            if not supported(tuple(m)):
                viol.append(V("novel-variant-unsupported", variant=str(m), n_q=nq(*m), tot_q=totq(m[0])))
    for s in minors:
        for a in s.solution:
            car = (set(gene.alleles[a.major].func_muts) | set(gene.alleles[a.major].minors[a.minor].neutral_muts) | set(a.added)) - set(a.missing)
            for m in car:
                if not supported(tuple(m)):
                    viol.append(V("carried-variant-unsupported", allele=a.minor, variant=str(m), n_q=nq(*m), tot_q=totq(m[0]),
                                  kind="core" if m in gene.alleles[a.major].func_muts else "silent-or-added"))
                    break
    seen, uniq = set(), []
    for v in viol:
        if v["bucket"] not in seen:
            seen.add(v["bucket"])
            uniq.append(v)
    if flipA or flipB:
        labels.append("count-passes-only-with-low-quality-reads")
    nontrivial = (touchA or touchB) and (flipA or flipB)
    return Result(uniq, labels, nontrivial)


def strategy(tier):
    def for_gene(g):
        d = {"gene": st.just(g), "build": st.sampled_from(["hg19", "hg38"]),
             "struct": st.lists(st.integers(0, 9), min_size=1, max_size=3), "depth": st.sampled_from([8, 15, 25]),
             "minq": st.sampled_from([0, 10, 10, 20, 40]), "minmq": st.sampled_from([0, 10, 10, 30]),
             "mincov": st.integers(1, 10), "thr": st.sampled_from([10, 30, 50, 50, 70, 90]), "seed": st.integers(0, 10 ** 6),
             "with_del": st.booleans(), "weak_directed": st.sampled_from([0, 0, 1, 2, 3]), "weak_stray": st.sampled_from([0, 0, 1, 2, 3]), "weak": st.lists(st.tuples(st.integers(0, 60), st.integers(1, 20)).map(list), max_size=3),
             "requal": st.none() | st.tuples(st.sampled_from([0, 15, 35, 45]), st.sampled_from([0, 15, 35, 45])).map(list)}
        if g == "gen":
            d["db"] = gen_db.db_specs(gaps=False, pseudo=True, force_sv=True, small=True, max_sites=6, max_alleles=6)
        return st.fixed_dictionaries(d)

    table = st.sampled_from(["toy", "gen", "gen", "gen", "cyp2c19", "nat2", "tpmt", "cyp2a6"]).flatmap(for_gene)
    sample = st.fixed_dictionaries({
        "kind": st.just("sample"), "db": gen_db.db_specs(gaps=False, sv=False, pseudo=False, small=True, max_sites=6, max_alleles=6),
        "build": st.sampled_from(["hg19", "hg38"]), "good": st.lists(st.integers(0, 30), min_size=2, max_size=2),
        "junk": st.lists(st.integers(0, 30), min_size=1, max_size=2), "rl": st.sampled_from([50, 100]), "thin": st.sampled_from([1, 2, 4]),
        "lowkind": st.sampled_from(["mapq", "baseq"]), "phase": st.booleans(), "seed": st.integers(0, 10 ** 6)})
    return st.sampled_from(["t"] * 5 + ["s"]).flatmap(lambda k: table if k == "t" else sample)


def budget(tier):
    return {"examples": 480 if tier == "quick" else 10000, "shards": 16}
