"""C10 - reported solutions are the best candidates and are internally consistent."""
import collections
import os

from hypothesis import strategies as st

from lib import gen_db, simreads, record
from lib.runner import Result, V, scratch
from props import C01

ID = "C10"
ISOLATE = True
CASE_TIMEOUT = 25
RULE = ("case = C01-style generated database and planted sample + noise layers (extra quarter/half-copy read layers over drawn gene or "
        "pseudogene regions so that several structures compete, optionally carrying a core variant so that several major solutions "
        "compete) x gap in {0, 0.1, 0.3} x max_minor_solutions 1-3 x optionally one stage forced to return nothing; the returns of "
        "estimate_cn / estimate_major / solve_minor_model / estimate_minor are recorded during genotype() and the final selection is "
        "recomputed independently; non-trivial = at least two structure or major solutions were recorded, or a candidate was filtered "
        "out, or a stage was forced empty; distinct = case JSON")
ASSUMPTIONS = ["score equality at 1e-6; candidates within 2e-4 of a threshold are not judged (borderline)",
               "order judged at the granularity the statement gives (best first = non-decreasing score, ties at 1e-3 unordered)"]
EXPLANATION = "recorded-stage recomputation of the final selection + chain consistency of every reported solution"

PREC = 1e-2
STAGE_MSG = {"cn": "No solutions found", "major": "No major solutions found", "minor": "could not phase"}


def key_minor(alleles):
    return tuple(sorted((a[0], a[1], tuple(sorted(map(tuple, a[2]))), tuple(sorted(map(tuple, a[3])))) for a in alleles))


def run_case(case):
    import aldy.cn
    import aldy.major
    import aldy.minor
    from aldy.gene import Gene
    from aldy.genotype import genotype
    from aldy.common import AldyException

    d = scratch()
    db = os.path.join(d, "ga.yml")
    gen_db.write(case["db"], db)
    build = case["build"]
    gene = Gene(db, genome=build)
    copies = C01.plan(gene, case)
    if copies is None:
        return Result([], ["inadmissible"], False)
    sim = simreads.Sim(gene, seed=case["sim_seed"])
    rl = case["rl"]
    step = max(1, rl // case["depth"])
    reads = sim.sample_reads([(c, m) for c, m, _, _ in copies], rl, step)
    # noise layers
    func = sorted(m for m in gene.mutations if gene.mutations[m][0])
    for j, (gi, ri, mul, vi) in enumerate(case["noise"]):
        gi = gi % len(gene.regions)
        regs = [r for r in gene.regions[gi].values() if r.end > r.start]
        if ri >= 6:  # a fractional copy of the whole gene (or pseudogene)
            lo, hi = min(r.start for r in regs), max(r.end for r in regs)
        else:
            rg = regs[ri % len(regs)]
            lo, hi = rg.start, rg.end
        muts = {}
        if vi >= 0 and func and gi == 0:
            m = func[vi % len(func)]
            if lo <= m[0] < hi:
                muts = {m[0]: m[1]}
        reads += sim.tile(f"noise{j}", lo, hi, muts, rl, step * mul)
    bam, pbam = os.path.join(d, "s.bam"), os.path.join(d, "p.bam")
    sim.write(bam, reads)
    sim.sample(pbam, [("1", frozenset())] * 2, rl, step)
    gap, mms, kill = case["gap"], case["mms"], case["kill"]
    labels = [f"gap:{gap}", f"mms:{mms}", f"kill:{kill}", f"noise:{len(case['noise'])}"]

    outpath = os.path.join(d, "o.simple")
    viol = []
    orig = {}
    if kill == "cn":
        orig["cn"] = aldy.cn.solve_cn_model
        aldy.cn.solve_cn_model = lambda *a, **k: []
    elif kill == "major":
        orig["major"] = aldy.major.solve_major_model
        aldy.major.solve_major_model = lambda *a, **k: []
    elif kill == "major-first":
        # only the FIRST structure handed to the major stage has no admissible allele combination; the others are solved normally
        orig["major"] = aldy.major.solve_major_model
        first_cn = []

        def first_empty(gene_, cov_, cn_sol, *a, **k):
            key = tuple(sorted(cn_sol.solution.items()))
            if not first_cn:
                first_cn.append(key)
            if key == first_cn[0]:
                return []
            return orig["major"](gene_, cov_, cn_sol, *a, **k)

        aldy.major.solve_major_model = first_empty
    elif kill == "nudge":
        # not a fault: the refinement stage's second-best candidate is moved to best + gap + 0.005, i.e. inside the documented
        # tolerance (0.01) of the final gap filter; the selection is judged by the recomputation below on the recorded (moved) scores
        orig["estimate_minor"] = aldy.minor.estimate_minor

        def nudged(*a, **k):
            res = orig["estimate_minor"](*a, **k)
            if len(res) >= 2:
                srt = sorted(res, key=lambda s_: s_.score)
                srt[1].score = srt[0].score + gap + 0.005
            return res

        aldy.minor.estimate_minor = nudged
    elif kill == "minor":
        orig["minor"] = aldy.minor.solve_minor_model
        aldy.minor.solve_minor_model = lambda *a, **k: []
    exc = None
    res = None
    try:
        with record.stages() as rec, record.minor_models(rec):
            with open(outpath, "w") as fh:
                try:
                    res = genotype(db, bam, pbam, output_file=fh, cn_region=sim.cnr, genome=build, solver="cbc", gap=gap,
                                   max_minor_solutions=mms)
                except AldyException as e:
                    exc = e
    finally:
        if "cn" in orig:
            aldy.cn.solve_cn_model = orig["cn"]
        if "major" in orig:
            aldy.major.solve_major_model = orig["major"]
        if "minor" in orig:
            aldy.minor.solve_minor_model = orig["minor"]
        if "estimate_minor" in orig:
            aldy.minor.estimate_minor = orig["estimate_minor"]
    text = open(outpath).read()
    sols = [s for v in (res or {}).values() for s in v]

    if kill == "nudge":
        labels.append("second-best-moved-into-the-tolerance-window")
        kill = "none"
    if kill == "major-first":
        others = any(call["result"] for call in rec.get("major", []))
        if not others and rec.get("cn") and first_cn:
            # the run may have ended before the other structures were tried: ask the major stage directly (patch already undone)
            c0 = rec["cn"][0]
            for obj, (cnd, sc) in zip(c0["objects"], c0["result"]):
                if tuple(sorted(cnd.items())) != first_cn[0] and rec["original"]["estimate_major"](c0["gene"], c0["coverage"], obj, "cbc"):
                    others = True
                    break
        labels.append("first-structure-without-major-solution:" + ("others-have" if others else "alone"))
        if others:
            if exc is not None and STAGE_MSG["major"].lower() in str(exc).lower():
                return Result([V("run-aborted-although-another-structure-has-major-solutions", message=str(exc)[:200])], labels, True)
            kill = "none"  # judged by the recomputation below (the first structure simply contributes nothing)
        else:
            kill = "major"
    if kill != "none":
        applicable = not (kill == "cn" and not gene.do_copy_number)
        if applicable:
            if sols or exc is None:
                viol.append(V(f"empty-stage-still-reported:{kill}", n=len(sols)))
            else:
                if STAGE_MSG[kill].lower() not in str(exc).lower():
                    viol.append(V(f"empty-stage-wrong-message:{kill}", message=str(exc)[:200]))
                if text != f"s\t{gene.name}\t\n":
                    viol.append(V(f"empty-stage-simple-line:{kill}", got=text[:200]))
            return Result(viol, labels + ["forced-empty"], True)
        labels.append("kill-not-applicable")
    if exc is not None and STAGE_MSG["minor"] in str(exc).lower() and rec.get("minor_objects"):
        # recorded finding D9 (see C14) seen from the pipeline: estimate_minor filters the evidence ONCE, with the copy numbers of the
        # LAST candidate's structure, for all candidates; a candidate whose core variant lies where that structure has no copy loses
        # its evidence and has no feasible refinement.  Attributed only if some candidate refined ALONE (own filter) is feasible
        mo = rec["minor_objects"]
        structs = {tuple(sorted(m.cn_solution.solution.items())) for m in mo["majors"]}
        alone_ok = any(mo["estimate_minor"](mo["gene"], mo["coverage"], [m], "cbc") for m in mo["majors"])
        if alone_ok and len(structs) > 1:
            return Result([V("KF-D9:no-refinement-next-to-other-candidates-although-one-exists-alone", candidates=len(mo["majors"]),
                             structures=len(structs))], labels + ["kf-d9"], True)
    if exc is not None:
        return Result([V("unexpected-exception", message=str(exc)[:300])], labels, True)

    # ---------------- independent recomputation of the selection
    cn_list = rec["cn"][0]["result"]
    min_cn = min(s for _, s in cn_list)
    majors = []  # (cn dict, cn score, major dict, added, raw, total)
    for call in rec["major"]:
        for (md, added, raw) in call["result"]:
            majors.append((call["cn"], call["cn_score"], md, tuple(sorted(map(tuple, added))), raw, raw + (call["cn_score"] - min_cn)))
    # every structure solution must have gone through the major stage; for one that did not, run the stage now: if it yields
    # a major solution that survives the major filter, a within-gap candidate was never generated
    seen_cn = [tuple(sorted(c["cn"].items())) for c in rec["major"]]
    skipped = []
    for obj, (cnd, sc) in zip(rec["cn"][0]["objects"], cn_list):
        if tuple(sorted(cnd.items())) not in seen_cn:
            extra = rec["original"]["estimate_major"](rec["cn"][0]["gene"], rec["cn"][0]["coverage"], obj, "cbc")
            for s_ in extra:
                skipped.append((cnd, sc, {a.major: n for a, n in s_.solution.items()}, tuple(sorted(map(tuple, s_.added))), s_.score, s_.score + (sc - min_cn)))
    if not majors:
        return Result([V("no-major-recorded-but-no-error")], labels, True)
    min_major = min(m[5] for m in majors + skipped)
    lost = [m for m in skipped if m[5] - min_major - gap < PREC - 2e-4]
    if lost:
        viol.append(V("structure-skipped-before-major-stage-had-within-gap-candidate", structure=lost[0][0], total=lost[0][5], best=min_major, gap=gap))
        return Result(viol, labels + ["structure-skipped"], True)
    if skipped:
        labels.append("structure-skipped-harmlessly")
    borderline = False
    kept = []
    for m in majors:
        margin = m[5] - min_major - gap
        if abs(margin - PREC) < 2e-4:
            borderline = True
        if margin < PREC:
            kept.append(m)
    labels += [f"ncn:{min(len(cn_list), 4)}", f"nmajor:{min(len(majors), 4)}", f"kept:{min(len(kept), 4)}"]

    def mkey(cn, md, added):
        return (tuple(sorted(cn.items())), tuple(sorted(md.items())), tuple(added))

    # what estimate_minor was given
    given = collections.Counter(mkey(cnd, md, tuple(sorted(map(tuple, added)))) for (md, added, sc, cnd, cns) in rec["minor"][0]["input"])
    want = collections.Counter(mkey(m[0], m[2], m[3]) for m in kept)
    if given != want and not borderline:
        viol.append(V("major-filter-wrong", given=len(given), want=len(want), gap=gap,
                      totals=sorted(round(m[5], 4) for m in majors)[:8]))
    for (md, added, sc, cnd, cns) in rec["minor"][0]["input"]:
        k = mkey(cnd, md, tuple(sorted(map(tuple, added))))
        tot = [m[5] for m in majors if mkey(m[0], m[2], m[3]) == k]
        if tot and all(abs(sc - t) > 1e-6 for t in tot):
            viol.append(V("major-score-carry-over-wrong", got=sc, want=tot[:3]))
            break
    # minor raw -> carried over -> rescaled
    min_kept = min(m[5] for m in kept) if kept else 0.0
    cand = []  # (final score, minor key, major key)
    for mm in rec.get("minor_model", []):
        k = mkey(mm["cn"], mm["major"], tuple(sorted(map(tuple, mm["added"]))))
        tot = [m for m in kept if mkey(m[0], m[2], m[3]) == k]
        if not tot:
            continue
        m = tot[0]
        for alleles, raw in mm["result"]:
            est = raw + (m[5] - min_kept)
            cand.append((est * ((m[1] + 1) / (min_cn + 1)), key_minor(alleles), k, est))
    if case["kill"] == "nudge":
        # the moved score lives in estimate_minor's output: take the candidates from there (the carry-over clause is judged in the
        # other modes)
        cand = []
        for (al, sc, mjd, madd, cnd, cnsc, mjsc) in rec["minor"][0]["result"]:
            cand.append((sc * ((cnsc + 1) / (min_cn + 1)), key_minor(al), mkey(cnd, mjd, tuple(sorted(map(tuple, madd)))), sc))
    # estimate_minor's own output must be raw + carry-over
    est_out = sorted((round(sc, 6), key_minor(al)) for (al, sc, *_rest) in rec["minor"][0]["result"])
    est_want = sorted((round(c[3], 6), c[1]) for c in cand)
    if est_out != est_want and not borderline and given == want:
        viol.append(V("minor-carry-over-wrong", got=[x[0] for x in est_out][:6], want=[x[0] for x in est_want][:6]))
    if cand:
        best = min(c[0] for c in cand)
        exp, may = [], []
        for c in cand:
            margin = c[0] - best - gap
            if margin < PREC - 2e-4:
                exp.append(c)
            if margin < PREC + 2e-4:
                may.append(c)
        rep = [(s.score, key_minor([(a.major, a.minor, a.added, a.missing) for a in s.solution]),
                mkey(dict(s.major_solution.cn_solution.solution), {a.major: n for a, n in s.major_solution.solution.items()},
                     tuple(sorted(map(tuple, s.major_solution.added))))) for s in sols]
        rk = collections.Counter((r[1], r[2]) for r in rep)
        ek = collections.Counter((c[1], c[2]) for c in exp)
        mk = collections.Counter((c[1], c[2]) for c in may)
        if not viol:
            if ek - rk:
                viol.append(V("candidate-within-gap-not-reported", missing=len(ek - rk), reported=len(rep), gap=gap,
                              scores=sorted(round(c[0], 4) for c in cand)[:8]))
            if rk - mk:
                viol.append(V("reported-candidate-outside-gap", extra=len(rk - mk), reported=len(rep), gap=gap,
                              scores=sorted(round(c[0], 4) for c in cand)[:8], rep=[round(r[0], 4) for r in rep][:8]))
            for r in rep:
                m = [c[0] for c in cand if (c[1], c[2]) == (r[1], r[2])]
                if m and all(abs(r[0] - x) > 1e-6 for x in m):
                    viol.append(V("reported-score-wrong", got=r[0], want=m[:3]))
                    break
        sc = [s.score for s in sols]
        if any(sc[i + 1] < sc[i] - 1e-3 for i in range(len(sc) - 1)):
            viol.append(V("not-best-first", scores=sc[:8]))
        if len(cand) > len(rep):
            labels.append("candidate-filtered")
    # ---------------- chain consistency
    for s in sols:
        cn = s.major_solution.cn_solution.solution
        if collections.Counter(gene.alleles[a.major].cn_config for a in s.solution) != collections.Counter(dict(cn)):
            viol.append(V("chain:structure-mismatch", cn=dict(cn), alleles=[a.major for a in s.solution]))
            break
        if collections.Counter(a.major for a in s.solution) != collections.Counter({a.major: n for a, n in s.major_solution.solution.items()}):
            viol.append(V("chain:major-mismatch", major={a.major: n for a, n in s.major_solution.solution.items()},
                          minor=[(a.major, a.minor) for a in s.solution]))
            break
        for a in s.solution:
            if a.minor not in gene.alleles[a.major].minors:
                viol.append(V("chain:minor-not-of-major", allele=(a.major, a.minor)))
        flat = [i for h in s.diplotype for i in h if i != -1]
        if sorted(flat) != list(range(len(s.solution))):
            viol.append(V("chain:diplotype-not-a-partition", diplotype=s.diplotype, n=len(s.solution)))
            break
    nontrivial = len(cn_list) > 1 or len(majors) > 1 or "candidate-filtered" in labels
    return Result(viol, labels, nontrivial)


def strategy(tier):
    return st.fixed_dictionaries({
        "db": st.one_of(gen_db.db_specs(gaps=False, pseudo=True, force_sv=True), gen_db.db_specs(gaps=False)),
        "build": st.sampled_from(["hg19", "hg38"]),
        "hap": st.lists(st.tuples(st.integers(0, 5), st.integers(0, 40)).map(list), min_size=2, max_size=2),
        "extra": st.lists(st.integers(0, 40), min_size=0, max_size=2),
        "rl": st.sampled_from([50, 100, 150]),
        "depth": st.sampled_from([20, 25]),
        "noise": st.lists(st.tuples(st.integers(0, 1), st.integers(0, 8), st.sampled_from([2, 2, 4, 3]), st.sampled_from([-1, -1, 0, 1, 2, 3])).map(list),
                          min_size=1, max_size=5),
        "gap": st.sampled_from([0, 0.1, 0.3, 0.3]),
        "mms": st.sampled_from([1] * 10 + [2, 3]) if tier == "quick" else st.sampled_from([1, 1, 2, 3]),
        "kill": st.sampled_from(["none"] * 7 + ["cn", "major", "minor", "major-first", "major-first", "nudge", "nudge"]),
        "sim_seed": st.integers(0, 10 ** 6),
    })


def budget(tier):
    return {"examples": 560 if tier == "quick" else 8000, "shards": 16}
