"""C04 - minor-allele refinement preserves the major call and is optimal."""
import collections
import glob
import os
import random

from hypothesis import strategies as st
from natsort import natsorted

from lib import gen_db, gen_sol, gen_evid, refmodels
from lib.runner import Result, V, REPO

ID = "C04"
CASE_TIMEOUT = 150
RULE = ("optimality part: toy gene and tiny generated databases (<= 6 considered variants) x major solution of 1-3 copies (fusion partials "
        "included) x planted + noisy read-count tables (sites without support, extra support) x optional read-phase records (fragments "
        "consistent with a planted copy, plus chimeric ones); estimate_minor compared with an exhaustive enumerator of (minor choice x "
        "kept x added) assignments, and every reported allele checked against the safety rules. Noise-free part: pairs of catalogued "
        "minor alleles of every shipped gene (stride sample quick, all pairs for genes with <= 70 database alleles thorough). "
        "Non-trivial = >= 8 feasible assignments and the optimum is not the all-default assignment, or a phase record is present; "
        "distinct = case JSON")
ASSUMPTIONS = ["the deliberate tie-breaker (minor_add x index / 1e6 per addition) is not modelled: reported score may exceed the reference by 1e-3",
               "enumeration capped at 4e5 assignments per case (larger cases: safety invariants only)",
               "noise-free part compares carried-variant multisets, not scores"]
EXPLANATION = "differential vs exhaustive enumerator of the minor-stage objective (R-MIN, with phase term) + safety invariants + noise-free catalogue pairs"


class FakeSam:
    def __init__(self, phases):
        self.phases = phases
        self.name = "s"


def invariants(gene, prof, raw, cn, major_counts, sols, t2, viol):
    """Safety predicates on every reported SolvedAllele."""
    from aldy.gene import Mutation

    def sup(m):
        return len(t2.get(m[0], {}).get(m[1], []))

    for s in sols:
        called = collections.Counter(a.major for a in s.solution)
        if called != collections.Counter(major_counts):
            viol.append(V("refined-alleles-do-not-match-major-call", called=dict(called), major=dict(major_counts)))
        carried_any = collections.Counter()
        for a in s.solution:
            al = gene.alleles[a.major]
            if a.minor not in al.minors:
                viol.append(V("minor-not-of-called-major", major=a.major, minor=a.minor))
                continue
            for m in a.missing:
                if m in al.func_muts:
                    viol.append(V("core-variant-dropped", allele=a.minor, variant=str(m)))
            for m in a.added:
                if not gene.has_coverage(a.major, m.pos):
                    viol.append(V("variant-added-where-allele-has-no-copy", allele=a.minor, variant=str(m)))
                if sup(m) <= 0:
                    viol.append(V("variant-added-without-read-support", allele=a.minor, variant=str(m)))
            car = (set(al.func_muts) | set(al.minors[a.minor].neutral_muts) | set(a.added)) - set(a.missing)
            for m in car:
                carried_any[m] += 1
                if sup(m) <= 0:
                    kind = "core" if m in al.func_muts else "silent"
                    viol.append(V(f"carried-variant-without-read-support:{kind}", allele=a.minor, variant=str(m)))
            pc = collections.Counter(m.pos for m in car if not m.op.startswith("ins"))
            if any(v > 1 for v in pc.values()):
                viol.append(V("two-variants-at-one-position", allele=a.minor, variants=sorted(str(m) for m in car if pc[m.pos] > 1)))
        # every considered variant with support (and copies at its position) is carried by at least one allele
        considered = set()
        for A in major_counts:
            considered |= set(gene.alleles[A].func_muts)
            for mi in gene.alleles[A].minors.values():
                considered |= set(mi.neutral_muts)
        considered |= set(gene.random_mutations)
        for m in considered:
            if sup(m) > 0 and cn.position_cn(m.pos) > 0 and carried_any[m] == 0:
                viol.append(V("supported-variant-carried-by-no-allele", variant=str(m), support=sup(m)))
                break


def run_opt(case):
    from aldy.gene import Mutation
    from aldy.profile import Profile
    from aldy.solutions import CNSolution, MajorSolution, SolvedAllele
    from aldy.minor import estimate_minor

    if case["gene"] == "gen":
        gene = gen_sol.generated(case["db"], case["build"], "c04")
    else:
        gene = gen_sol.shipped("toy", case["build"])
    prof = Profile("t")
    prof.phase = bool(case["phases"])
    rng = random.Random(case["seed"])
    dele = gene.deletion_allele()
    confs = [c for c in gene.cn_configs if c != dele]
    by = {c: natsorted(a for a in gene.alleles if gene.alleles[a].cn_config == c) for c in confs}
    confs = [c for c in confs if by[c]]
    struct = [confs[i % len(confs)] if (k or case.get("first_any")) else "1" for k, i in enumerate(case["struct"])]
    if "1" not in by:
        return Result([], ["no-default"], False)
    forced = None
    if case.get("all_fused"):
        # directed: every copy is one fusion allele whose database definition lists a variant in the part of the gene it lacks
        lostful = [(c, a) for c in confs for a in by[c]
                   if any(not gene.has_coverage(a, m[0]) for mi in gene.alleles[a].minors.values() for m in set(gene.alleles[a].func_muts) | set(mi.neutral_muts))]
        if lostful:
            fc, forced = lostful[case["all_fused"] % len(lostful)]
            struct = [fc] * len(struct)
    cn = CNSolution(gene, 0, struct)
    sel = []
    first = {}
    for c in struct:
        a = forced or by[c][rng.randrange(len(by[c]))]
        mi = natsorted(gene.alleles[a].minors)
        pick = (a, mi[rng.randrange(len(mi))])
        if case.get("homo"):
            # every copy of a configuration is the same database allele (the major call holds an allele two or three times)
            pick = first.setdefault(c, pick)
        sel.append(pick)
    major_counts = collections.Counter(a for a, _ in sel)
    # a haplotype shows an allele's variants only where the allele's structure keeps the gene
    copies = [(a, {tuple(m) for m in gen_evid.carried(gene, a, mn) if gene.has_coverage(a, m[0])}) for a, mn in sel]
    sites = sorted(gene.mutations)
    extra = {}
    for j in case["extra"]:
        m = sites[j % len(sites)]
        if cn.position_cn(m[0]) > 0:
            extra[m] = 1
    if case.get("twin_extra"):
        # multi-allelic pressure: reads for the OTHER alternative at a site where a planted copy carries a variant
        carried_pos = {p for _, ms in copies for p, _ in ms}
        for m in sites:
            if m[0] in carried_pos and not any(m in ms for _, ms in copies) and cn.position_cn(m[0]) > 0:
                extra[m] = 1
    noise = (0.7, 1.3) if case["noisy"] else (1.0, 1.0)
    ev_copies = copies
    if case.get("short") and len(copies) > 1:
        # the reads under-represent the last copy's core variants by one copy (they show the reference there instead)
        a_last, ms_last = copies[-1]
        ev_copies = copies[:-1] + [(a_last, ms_last - {tuple(m) for m in gene.alleles[a_last].func_muts})]
    raw = gen_evid.planted_table(gene, ev_copies, case["depth"], sites, rng, noise, extra, drop=case["drop"] / 100.0)
    # observations below the quality thresholds (base quality or mapping quality 5): the stage must not see them
    for j, n in case.get("lowq", []):
        m = sites[j % len(sites)] if sites else None
        if m is not None and cn.position_cn(m[0]) > 0:
            raw.setdefault(m[0], {}).setdefault(m[1], [])
            raw[m[0]][m[1]] = list(raw[m[0]][m[1]]) + [((5, 60) if (j + n) % 2 else (60, 5))] * n
    # phases: fragments consistent with one planted copy over 2-3 catalogue positions (+ chimeric ones)
    phases = None
    if case["phases"]:
        phases = {}
        posl = sorted({p for p, _ in sites if cn.position_cn(p) > 0})
        for f in range(case["phases"]):
            if len(posl) < 2:
                break
            ps = rng.sample(posl, min(len(posl), rng.choice([2, 2, 3])))
            ci = rng.randrange(len(copies))
            cj = rng.randrange(len(copies)) if rng.random() < 0.2 else ci
            rec = {}
            for k, p in enumerate(ps):
                src = copies[ci if k == 0 else cj][1]
                here = [o for (pp, o) in src if pp == p]
                rec[p] = here[0] if here else "_"
            phases[f"f{f}"] = rec
    cov = gen_evid.coverage_of(gene, prof, raw, sam=FakeSam(phases) if phases else None)
    # novel core variant of the major call: a catalogued functional variant that none of the called alleles defines
    novel = []
    if case.get("novel") is not None:
        own = {tuple(m) for a, _ in sel for m in gene.alleles[a].func_muts}
        cand = [m for m in sites if gene.is_functional(m) and m not in own and cn.position_cn(m[0]) > 0]
        if cand:
            novel = [Mutation(*cand[case["novel"] % len(cand)])]
            if not raw.get(novel[0].pos, {}).get(novel[0].op):
                raw.setdefault(novel[0].pos, {})[novel[0].op] = [(60, 60)] * case["depth"]
                cov = gen_evid.coverage_of(gene, prof, raw, sam=FakeSam(phases) if phases else None)
    majors = [(MajorSolution(0, collections.Counter({SolvedAllele(gene, A): c for A, c in major_counts.items()}), cn, novel), major_counts)]
    if case.get("multi"):
        # a second, different major call of the same structure (worse by 0.5): variants are pooled over both
        r2 = random.Random(case["seed"] + 1)
        mc2 = collections.Counter(by[c][r2.randrange(len(by[c]))] for c in struct)
        if mc2 != major_counts:
            majors.append((MajorSolution(0.5, collections.Counter({SolvedAllele(gene, A): c for A, c in mc2.items()}), cn, []), mc2))
            if not case.get("novel_last"):
                majors.reverse()
    sols_all = estimate_minor(gene, cov, [m for m, _ in majors], "cbc", max_solutions=case["mms"])
    labels = [f"gene:{case['gene']}", f"copies:{len(struct)}", "phases" if phases else "no-phases", "noisy" if case["noisy"] else "exact",
              "fused" if any(c != "1" for c in struct) else "default-only"]
    if novel:
        labels.append("major-call-has-novel-variant")
    if any(cn.position_cn(m[0]) == 0 for a, mn in sel for m in gen_evid.carried(gene, a, mn)):
        labels.append("called-allele-lists-variant-where-structure-has-no-copy")
    if len(majors) > 1:
        labels.append("two-major-calls")
        if novel and majors[-1][0].added == []:
            labels.append("two-major-calls+novel-not-last")
    if max(collections.Counter(sel).values()) > 1:
        labels.append("same-allele-twice")
        if ev_copies is not copies and gene.alleles[copies[-1][0]].func_muts:
            labels.append("same-allele-twice+core-under-represented")
    if any(m[0] in {p for _, ms in copies for p, _ in ms} for m in extra):
        labels.append("multi-allelic-evidence")
    pooled = {m for mj, mc in majors for m in _considered(gene, mc)} | {m for mj, _ in majors for m in mj.added}
    viol = []
    nontrivial = False
    for mj, mc in majors:
        sols = [s for s in sols_all if s.major_solution is mj]
        if len(majors) == 1 and len(sols) != len(sols_all):
            viol.append(V("solution-of-another-major-call"))
        off = mj.score - min(m.score for m, _ in majors)
        try:
            best, nfeas, t2 = refmodels.rmin(gene, prof, raw, mc, cn, extra_mutations=[tuple(m) for m in pooled], phases=phases)
        except OverflowError:
            labels.append("enumeration-capped")
            t2, _pcn = refmodels.filtered_table(gene, prof, raw, cn, keep=refmodels.minor_keep_rule(gene, pooled))
            invariants(gene, prof, raw, cn, mc, sols, t2, viol)
            continue
        invariants(gene, prof, raw, cn, mc, sols, t2, viol)
        # every considered variant of the major call that has (filtered) support is carried by some allele
        for s_ in sols:
            car = set()
            for a_ in s_.solution:
                al = gene.alleles[a_.major]
                if a_.minor in al.minors:
                    car |= (set(al.func_muts) | set(al.minors[a_.minor].neutral_muts) | set(a_.added)) - set(a_.missing)
            for m in mj.added:
                if len(t2.get(m.pos, {}).get(m.op, [])) > 0 and m not in car:
                    viol.append(V("novel-variant-of-major-call-lost", variant=str(m), calls=len(majors)))
        if best is None:
            if sols:
                viol.append(V("solutions-but-no-admissible-assignment", n=len(sols)))
            labels.append("infeasible")
            continue
        if not sols:
            viol.append(V("no-solution-but-admissible-assignment-exists", reference=best[0], feasible=nfeas, calls=len(majors)))
            nontrivial = True
            continue
        s0 = min(s.score for s in sols) - off
        tb = 1e-3 * max(1, best[2] + 2)
        if s0 < best[0] - 1e-4:
            viol.append(V("score-below-exhaustive-optimum", reported=s0, reference=best[0], phases=bool(phases), calls=len(majors)))
        elif s0 > best[0] + tb + 1e-4:
            viol.append(V("score-above-exhaustive-optimum", reported=s0, reference=best[0], phases=bool(phases), calls=len(majors),
                          reported_alleles=[(a.minor, [str(m) for m in a.added], [str(m) for m in a.missing]) for a in sols[0].solution],
                          reference_assignment=[(mi, sorted(map(str, add)), sorted(map(str, set(D) - set(kept)))) for (A, mi, D, kept, add) in best[1]]))
        default_opt = all(len(add) == 0 and kept == D for (A, mi, D, kept, add) in best[1])
        if any(a.added for s in sols for a in s.solution):
            labels.append("added")
        if any(a.missing for s in sols for a in s.solution):
            labels.append("missing")
        labels.append(f"feasible:{'8+' if nfeas >= 8 else nfeas}")
        nontrivial = nontrivial or (nfeas >= 8 and not default_opt) or bool(phases)
    return Result(_uniq(viol), sorted(set(labels)), nontrivial)


def _considered(gene, major_counts):
    s = set()
    for A in major_counts:
        s |= set(gene.alleles[A].func_muts)
        for mi in gene.alleles[A].minors.values():
            s |= set(mi.neutral_muts)
    return s | set(gene.random_mutations)


def _uniq(viol):
    seen, out = set(), []
    for v in viol:
        if v["bucket"] not in seen:
            seen.add(v["bucket"])
            out.append(v)
    return out


def run_pairs(case):
    """Noise-free evidence from two catalogued minor alleles -> carried variants reproduce the planted ones."""
    from aldy.profile import Profile
    from aldy.solutions import CNSolution, MajorSolution, SolvedAllele
    from aldy.minor import estimate_minor

    gene = gen_sol.shipped(case["gene"], case["build"])
    prof = Profile("t")
    minors = natsorted((mn, a.name) for a in gene.alleles.values() if a.cn_config == "1" for mn in a.minors)
    cn = CNSolution(gene, 0, ["1", "1"])
    viol = []
    nt = 0
    for i, j in case["pairs"]:
        pick = [minors[i % len(minors)], minors[j % len(minors)]]
        copies = [(maj, {tuple(m) for m in gen_evid.carried(gene, maj, mn)}) for mn, maj in pick]
        pos = collections.defaultdict(set)
        for _, ms in copies:
            for p, o in ms:
                if not o.startswith("ins"):
                    pos[p].add(o)
        if any(len(v) > 1 for v in pos.values()):
            continue  # overlapping footprints
        sites = sorted({m for _, ms in copies for m in ms})
        raw = gen_evid.planted_table(gene, copies, 20, sites)
        cov = gen_evid.coverage_of(gene, prof, raw)
        mc = collections.Counter(maj for _, maj in pick)
        major = MajorSolution(0, collections.Counter({SolvedAllele(gene, A): c for A, c in mc.items()}), cn, [])
        sols = estimate_minor(gene, cov, [major], "cbc")
        planted = collections.Counter(m for _, ms in copies for m in ms)
        if planted:
            nt += 1
        if not sols:
            viol.append(V("noise-free-pair-not-refined", pair=[p[0] for p in pick]))
            break
        for s in sols:
            car = collections.Counter()
            for a in s.solution:
                al = gene.alleles[a.major]
                for m in (set(al.func_muts) | set(al.minors[a.minor].neutral_muts) | set(a.added)) - set(a.missing):
                    car[tuple(m)] += 1
            if car != planted:
                lost, added = planted - car, car - planted
                viol.append(V("noise-free-variants-not-reproduced:" + ("lost" if lost else "") + ("added" if added else ""),
                              pair=[p[0] for p in pick], lost=[str(m) for m in lost][:4], added=[str(m) for m in added][:4],
                              reported=[a.minor for a in s.solution]))
                break
        if viol:
            break
    return Result(_uniq(viol), [f"gene:{case['gene']}", "pairs"], nt > 0, info={"pairs": len(case["pairs"]), "nontrivial": nt})


def run_case(case):
    if case["kind"] == "opt":
        return run_opt(case)
    return run_pairs(case)


def enum_cases(tier):
    out = []
    genes = sorted(os.path.basename(p)[:-4] for p in glob.glob(os.path.join(REPO, "aldy", "resources", "genes", "*.yml")))
    for g in genes:
        gene = gen_sol.shipped(g, "hg19")
        n = len([mn for a in gene.alleles.values() if a.cn_config == "1" for mn in a.minors])
        pairs = [(i, j) for i in range(n) for j in range(i, n)]
        limit = (16 if n > 70 else 40) if tier == "quick" else (2000 if n > 70 else len(pairs))
        if len(pairs) > limit:
            stride = len(pairs) / float(limit)
            pairs = [pairs[int(k * stride)] for k in range(limit)]
        for b in ("hg19", "hg38"):
            chunk = 8 if n > 70 else 20
            for k in range(0, len(pairs), chunk):
                out.append({"kind": "pairs", "gene": g, "build": b, "pairs": [list(p) for p in pairs[k:k + chunk]]})
    return out


def strategy(tier):
    def for_gene(g):
        d = {"kind": st.just("opt"), "gene": st.just(g), "build": st.sampled_from(["hg19", "hg38"]),
             "struct": st.lists(st.integers(0, 9), min_size=1, max_size=3), "depth": st.sampled_from([10, 20]),
             "noisy": st.booleans(), "extra": st.lists(st.integers(0, 30), max_size=2), "drop": st.sampled_from([0, 0, 20]),
             "phases": st.sampled_from([0, 0, 6, 20]), "mms": st.just(1), "seed": st.integers(0, 10 ** 6),
             "twin_extra": st.booleans(), "homo": st.sampled_from([False, False, True]), "short": st.sampled_from([False, False, True]),
             "novel": st.sampled_from([None, None, 0, 1, 2]), "multi": st.sampled_from([False, False, True]), "novel_last": st.booleans(), "first_any": st.sampled_from([False, False, True]),
             "lowq": st.lists(st.tuples(st.integers(0, 30), st.integers(1, 25)).map(list), max_size=2), "all_fused": st.sampled_from([0, 0, 0, 1, 2])}
        if g == "gen":
            d["db"] = gen_db.db_specs(gaps=False, pseudo=True, force_sv=True, small=True, max_sites=5, max_alleles=5, twins=True, keep_lost=True)
        return st.fixed_dictionaries(d)

    return st.sampled_from(["toy", "gen", "gen"]).flatmap(for_gene)


def budget(tier):
    return {"examples": 640 if tier == "quick" else 10000, "shards": 16}
