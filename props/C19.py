"""C19 - no genotype is reported from no data."""
import io
import os

import yaml
from hypothesis import strategies as st

from lib import gen_db, simreads
from lib.runner import Result, V, scratch

ID = "C19"
ISOLATE = True  # end-to-end solver calls: run every case in a killable child
RULE = ("case = generated database x hole mode (1 reads only in the neutral region, 2 reads everywhere but gene+pseudogene, "
        "3 covered locus but average depth below a raised min_avg_coverage, 4 reads over the pseudogene only, 5 empty neutral region, "
        "10 empty neutral region with reads abutting it on both sides, 6 control, 9 covered locus with min_avg_coverage a fraction of a read above the measured depth, 7 reads that end exactly at / start right after the locus, 8 reads only between gene and pseudogene) x route (profile BAM, profile file, user-supplied structure with/without a profile) x output format "
        "(none, .aldy, .vcf, .simple, is_simple) x single/multi-gene call x optionally a healthy sample of the same file name genotyped first; non-trivial = modes 1-5; distinct = case JSON")
ASSUMPTIONS = [
    "mode 4 is judged only for databases with a pseudogene and a whole-gene deletion allele and an estimated structure (the statement's wording)",
    "mode 5 (empty neutral region) is judged only on routes that use a neutral region (not the user-supplied structure)",
]
EXPLANATION = "fault-shaped inputs; oracle = must-raise / must-not-report predicates and exact simple-output line"

ROUTES = ["bam", "file", "usercn", "usercn_p"]
OUTS = ["none", "aldy", "vcf", "simple", "is_simple"]


def run_case(case):
    from aldy.gene import Gene
    from aldy.genotype import genotype
    from aldy.common import AldyException
    from aldy.profile import Profile

    d = scratch()
    db = os.path.join(d, "ga.yml")
    gen_db.write(case["db"], db)
    build = case["build"]
    gene = Gene(db, genome=build)
    sim = simreads.Sim(gene, seed=case["sim_seed"])
    rl = case["rl"]
    step = max(1, rl // case["depth"])
    mode, route, out = case["mode"], case["route"], case["out"]
    dele = gene.deletion_allele()
    has_p = len(gene.regions) > 1
    labels = [f"mode:{mode}", f"route:{route}", f"out:{out}", f"pseudo:{int(has_p)}", f"del:{int(bool(dele))}", f"multi:{int(case['multi'])}"]

    two = [("1", frozenset())] * 2
    bam, pbam = os.path.join(d, "s.bam"), os.path.join(d, "p.bam")
    params = {}
    if mode == 1:
        reads = sim.sample_reads(two, rl, step, skip=("gene", "pseudo"))
    elif mode == 2:
        reads = sim.sample_reads(two, rl, step, skip=("gene", "pseudo"))
        wide = gene.get_wide_region()
        # unrelated reads elsewhere on the contig, clear of the locus (and of aldy's 500 bp fetch padding)
        reads += sim.tile("x", max(0, wide.start - 2500), wide.start - 1200, {}, rl, step)
    elif mode == 3:
        reads = sim.sample_reads(two, rl, step)
        params["min_avg_coverage"] = 2 * (rl // step) * 3  # well above the sample's average depth
    elif mode == 4:
        reads = sim.sample_reads(two, rl, step, skip=("gene",))
    elif mode == 7:
        # reads that end exactly at the first base of the locus / start right after its last base: no base of the locus is covered
        wide = gene.get_wide_region()
        reads = sim.sample_reads(two, rl, step, skip=("gene", "pseudo"))
        reads += sim.tile("adjL", max(0, wide.start - 3 * rl), wide.start, {}, rl, step)
        reads += sim.tile("adjR", wide.end + 1, wide.end + 1 + 2 * rl, {}, rl, step)
    elif mode == 8:
        # reads only in the stretch between the gene and its pseudogene (inside the fetch window, outside every region)
        reads = sim.sample_reads(two, rl, step, skip=("gene", "pseudo"))
        if has_p:
            ends = sorted([(min(r.start for r in g.values()), max(r.end for r in g.values())) for g in gene.regions])
            lo_, hi_ = ends[0][1] + 1, ends[1][0] - 1
            if hi_ - lo_ > 2 * rl:
                reads += sim.tile("gap", lo_, hi_, {}, rl, step)
    elif mode == 5:
        reads = sim.sample_reads(two, rl, step, skip=("neutral",))
    elif mode == 10:
        # like 5, plus reads that END at the last base before the neutral region and reads that START at the first base after it
        reads = sim.sample_reads(two, rl, step, skip=("neutral",))
        reads += sim.tile("abL", max(0, sim.cnr.start - 2 * rl), sim.cnr.start, {}, rl, step)
        reads += sim.tile("abR", sim.cnr.end, sim.cnr.end + 2 * rl, {}, rl, step)
    elif mode == 9:
        reads = sim.sample_reads(two, rl, step)  # threshold set below, once the sample's depth is known
    else:
        reads = sim.sample_reads(two, rl, step)
    if not reads:
        reads = sim.tile("far", sim.L - 600, sim.L - 100, {}, rl, step)
    sim.write(bam, reads)
    sim.sample(pbam, two, rl, step)
    if mode == 9:
        # configured minimum a fraction of a read above the locus depth as aldy measures it (judged: the comparison with the
        # configured, non-integer value)
        from aldy.sam import Sample

        avg = Sample(gene, Profile("x", cn_solution=["1", "1"]), bam).coverage.average_coverage()
        frac = avg - int(avg)
        params["min_avg_coverage"] = avg + min(0.3, (1 - frac) / 2)
        labels.append("threshold-between-floor-and-depth" if int(params["min_avg_coverage"]) <= avg else "threshold-floor-above-depth")
    if case.get("prior"):
        # history: a healthy sample with the same file name (another directory) is genotyped first in this process, same route
        os.makedirs(os.path.join(d, "prior"), exist_ok=True)
        pb = os.path.join(d, "prior", "s.bam")
        sim.sample(pb, two, rl, step)
        labels.append("after-healthy-sample-of-same-name")

    kw = dict(genome=build, solver="cbc")
    if route == "bam":
        prof, kw["cn_region"] = pbam, sim.cnr
    elif route == "file":
        regions = {(gene.name, r, gi): rng for gi, gr in enumerate(gene.regions) for r, rng in gr.items()}
        data = Profile.get_sam_profile_data(pbam, regions=regions, genome=build, cn_region=sim.cnr)
        prof = os.path.join(d, "prof.yml")
        with open(prof, "w") as f:
            f.write(yaml.dump(data, default_flow_style=None))
    elif route == "usercn":
        prof, kw["cn_solution"] = None, ["1", "1"]
    else:
        prof, kw["cn_solution"] = pbam, ["1", "1"]
    user_cn = route.startswith("usercn")

    outpath = None
    fh = None
    if out in ("aldy", "vcf", "simple"):
        outpath = os.path.join(d, f"o.{out}")
        fh = open(outpath, "w")
    elif out == "is_simple":
        outpath = os.path.join(d, "o.txt")
        fh = open(outpath, "w")
        kw["is_simple"] = True
    gene_arg = f"{db},{db}" if case["multi"] else db
    exc = None
    res = None
    if case.get("prior"):
        try:
            genotype(db, os.path.join(d, "prior", "s.bam"), prof, output_file=None, **{k: v for k, v in kw.items() if k != "is_simple"})
        except AldyException:
            labels.append("prior-run-rejected")
    try:
        res = genotype(gene_arg, bam, prof, output_file=fh, **kw, **params)
    except AldyException as e:
        exc = e
    finally:
        if fh:
            fh.close()
    text = open(outpath).read() if outpath else ""
    sols = [s for v in (res or {}).values() for s in v]
    viol = []
    must_fail = mode in (1, 2, 3, 7, 8, 9) or (mode in (5, 10) and not user_cn) or (mode == 4 and not has_p)
    ngenes = 2 if case["multi"] else 1
    if must_fail:
        if sols:
            viol.append(V(f"call-from-no-data:mode{mode if mode not in (2,) else 1}:{'usercn' if user_cn else 'estimated'}",
                          diplotypes=[s.get_major_diplotype() for s in sols][:3], route=route, mode=mode))
        elif not case["multi"] and exc is None:
            viol.append(V(f"no-error:mode{mode}", route=route))
        if case["multi"] and exc is not None:
            viol.append(V("multi-gene-run-aborted", message=str(exc)[:200]))
        # outputs
        if out in ("simple", "is_simple"):
            want = f"s\t{gene.name}\t\n" * ngenes
            if text != want and not sols:
                viol.append(V(f"simple-output-on-error:mode{mode if mode != 2 else 1}:{'usercn' if user_cn else 'estimated'}", got=text[:200], want=want))
        elif out in ("aldy", "vcf") and not sols:
            rows = [ln for ln in text.splitlines() if ln and not ln.startswith("##") and not ln.startswith("#Sample") and not ln.startswith("#CHROM")]
            if rows:
                viol.append(V(f"{out}-rows-on-error", rows=rows[:3]))
    elif mode == 4 and has_p and dele and not user_cn:
        labels.append("pseudogene-only")
        if exc is not None or not sols:
            viol.append(V("pseudogene-only-not-called-as-deletion", message=str(exc)[:200] if exc else "no solution", route=route))
        else:
            for s in sols:
                if len(s.solution) != 0 or s.get_major_diplotype().replace(" ", "") != f"*{dele}/*{dele}":
                    viol.append(V("pseudogene-only-wrong-call", diplotype=s.get_major_diplotype(), route=route))
                    break
    elif mode == 6:
        labels.append("control")
        if exc is not None or len(sols) < 1:
            viol.append(V("control-not-called", message=str(exc)[:200] if exc else "no solution", route=route))
        elif any(sorted(a.major for a in s.solution) != ["1", "1"] for s in sols):
            viol.append(V("control-wrong-call", diplotypes=[s.get_major_diplotype() for s in sols][:3]))
    else:
        labels.append("not-judged")
        return Result([], labels, False)
    return Result(viol, labels, mode != 6)


def strategy(tier):
    dbs = gen_db.db_specs(small=True, gaps=False, max_sites=4, max_alleles=3)
    return st.fixed_dictionaries({
        "db": dbs,
        "build": st.sampled_from(["hg19", "hg38"]),
        "mode": st.sampled_from([1, 7, 2, 3, 8, 4, 4, 5, 6, 3, 7, 9, 9, 5, 10, 10]),
        "prior": st.sampled_from([False, False, True]),
        "route": st.sampled_from(ROUTES),
        "out": st.sampled_from(OUTS),
        "multi": st.sampled_from([False, False, True]),
        "rl": st.sampled_from([50, 100, 150]),
        "depth": st.sampled_from([20, 25]),
        "sim_seed": st.integers(0, 10 ** 6),
    })


def budget(tier):
    return {"examples": 640 if tier == "quick" else 8000, "shards": 16}
