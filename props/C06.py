"""C06 - alignment evidence is a faithful pileup of the eligible reads."""
import collections
import os
import random

from hypothesis import strategies as st
from natsort import natsorted

from lib import gen_db, simreads, refpile
from lib.refpile import bin_quality
from lib.runner import Result, V, scratch

ID = "C06"
ISOLATE = True
CASE_TIMEOUT = 90
RULE = ("case = generated database (either strand, functional MNP present in about half) x read set = low-depth simulator reads of a "
        "planted allele (so catalogue SNPs/MNPs/indels occur) + 5-60 random reads with start anywhere from 700 bp left of the locus to "
        "200 bp right, CIGAR from the grammar [H][S] (M|=|X|I|D){1,8} [S][H], drawn mismatches, flags (secondary, supplementary, "
        "duplicate, qc-fail, reverse, paired, unmapped), mapq 0-60, base qualities 0-41, shared fragment names; written as indexed BAM "
        "and as permuted un-indexed SAM; non-trivial = an eligible read with an operation other than M overlaps the locus and an "
        "ineligible read is present; distinct = case JSON")
ASSUMPTIONS = [
    "aldy's mapping-quality value may be kept raw or binned with the same table (both readings of the statement accepted)",
    "qualities of deleted-base observations are not judged (the statement does not define them); their counts are",
    "positions are compared inside the gene and pseudogene regions only",
    "a position is judged for depth only if the independent interpreter and htslib's own pileup agree there",
]
EXPLANATION = "differential vs independent CIGAR interpreter and htslib pileup + metamorphic relations (ineligible-read removal, order, CIGAR split)"

OPS = ["M", "M", "M", "=", "X", "I", "D"]


def make_read(sim, rd, idx, rng_seed):
    """Expand a read descriptor into a concrete read dict."""
    rng = random.Random(rng_seed * 7919 + idx)
    G = sim.genome
    L = sim.L
    pos = max(0, min(L - 50, rd["start"]))
    p = pos
    cig = []
    seq = []
    for op, n in rd["cig"]:
        if op in "M=X":
            n = min(n, L - p - 1)
            if n <= 0:
                break
            for i in range(n):
                b = G[p + i]
                if op == "X" or (op == "M" and rng.random() < rd["mm"] / 100.0):
                    b = rng.choice([c for c in "ACGT" if c != b])
                seq.append(b)
            p += n
            cig.append((op, n))
        elif op == "D":
            n = min(n, L - p - 1)
            if n <= 0:
                break
            p += n
            cig.append((op, n))
        elif op in "IS":
            seq += [rng.choice("ACGT") for _ in range(n)]
            cig.append((op, n))
        elif op == "H":
            cig.append((op, n))
    # normalise: S/H only at the ends is guaranteed by the strategy; need one aligned base
    if not any(o in "M=X" for o, _ in cig):
        cig = [("M", 1)]
        seq = [G[pos]]
    if rd.get("nn"):
        # no-calls: the base N anywhere in the read (its own generator, so that older replay files keep their reads)
        r2 = random.Random(rng_seed * 104729 + idx)
        seq = ["N" if r2.random() < rd["nn"] / 100.0 else b for b in seq]
    s = "".join(seq)
    q = [rng.choice([0, 1, 2, 5, 9, 10, 15, 19, 20, 28, 29, 33, 38, 39, 41]) for _ in s]
    return {"name": f"f{rd['name']}", "pos": pos, "cig": cig, "seq": s, "qual": q, "mq": rd["mq"], "flag": rd["flag"]}


def write_reads(path, sim, reads, fmt, order=None):
    import pysam

    hdr = sim.header()
    rs = list(reads)
    if order is not None:
        rs = [rs[i] for i in order]
    else:
        rs.sort(key=lambda r: r["pos"])
    with pysam.AlignmentFile(path, "wb" if fmt == "bam" else "w", header=hdr) as f:
        for r in rs:
            a = pysam.AlignedSegment(f.header)
            a.query_name = r["name"]
            a.reference_id = 0
            a.reference_start = r["pos"]
            a.flag = r["flag"]
            a.mapping_quality = r["mq"]
            if not (r["flag"] & refpile.UNMAPPED):
                a.cigartuples = [(refpile.CODES[o], n) for o, n in r["cig"]]
            a.query_sequence = r["seq"]
            a.query_qualities = pysam.qualitystring_to_array("".join(chr(33 + x) for x in r["qual"]))
            f.write(a)
    if fmt == "bam":
        pysam.index(path)
    return path


def table_of(sample, positions):
    """{(pos, op): sorted list of (mq, q)} for non-insertion ops, restricted to `positions`."""
    out = {}
    for p in positions:
        for op, v in sample.coverage._coverage.get(p, {}).items():
            if op.startswith("ins"):
                continue
            out[(p, op)] = sorted((float(a), float(b)) for a, b in v)
    return out


def split_cigar(reads, gene, seed):
    """Re-encode match runs: split M runs, or spell them with =/X exactly (same alignment, same evidence)."""
    rng = random.Random(seed)
    G_ = None
    out = []
    for r in reads:
        p = r["pos"]
        q = 0
        cig = []
        for op, n in r["cig"]:
            if op in "M=X":
                mode = rng.choice(["split", "eqx", "keep"])
                if mode == "split" and n > 1:
                    k = rng.randrange(1, n)
                    cig += [("M", k), ("M", n - k)]
                elif mode == "eqx":
                    run = None
                    for i in range(n):
                        o = "=" if r["seq"][q + i] == r["_ref"][p - r["pos"] + i] else "X"
                        if run and run[0] == o:
                            run[1] += 1
                        else:
                            if run:
                                cig.append(tuple(run))
                            run = [o, 1]
                    cig.append(tuple(run))
                else:
                    cig.append(("M", n))
                p += n
                q += n
            else:
                cig.append((op, n))
                if op == "D":
                    p += n
                elif op in "IS":
                    q += n
        out.append(dict(r, cig=cig))
    return out


def run_case(case):
    import pysam
    from aldy.gene import Gene, Mutation
    from aldy.sam import Sample
    from aldy.profile import Profile

    d = scratch()
    db = os.path.join(d, "ga.yml")
    gen_db.write(case["db"], db)
    build = case["build"]
    gene = Gene(db, genome=build)
    sim = simreads.Sim(gene, seed=case["sim_seed"])
    wide = gene.get_wide_region()
    reads = []
    # (a) simulator reads of a planted allele at low depth
    allm = natsorted(mn for a in gene.alleles.values() if a.cn_config == "1" for mn in a.minors)
    nm = allm[case["allele"] % len(allm)]
    conf, ms, _ = simreads.allele_copy(gene, nm)
    rl = case["rl"]
    base = sim.sample_reads([(conf, ms)], rl, max(1, rl // 3), skip=("neutral", "pseudo"))
    rng = random.Random(case["sim_seed"])
    letters = {0: "M", 1: "I", 2: "D", 4: "S"}
    for i, (name, pos, cig, s) in enumerate(base):
        reads.append({"name": f"s{i // 2}", "pos": pos, "cig": [(letters[o], n) for o, n in cig], "seq": s,
                      "qual": [rng.choice([1, 9, 10, 19, 20, 30, 40]) for _ in s], "mq": rng.choice([0, 5, 9, 10, 30, 60]), "flag": 0})
    # (b) random reads
    for i, rd in enumerate(case["reads"]):
        rd = dict(rd, start=wide.start - 700 + rd["start"] % max(1, (wide.end - wide.start) + 900))
        reads.append(make_read(sim, rd, i, case["sim_seed"]))
    if case.get("endreads"):
        # (c) directed: reads whose alignment ENDS exactly on a catalogued insertion site (the base before the inserted bases) - with a
        # substituted last base, with the catalogued insertion as their last operation, and the same followed by a soft clip
        G = sim.genome
        sub = {"A": "C", "C": "G", "G": "T", "T": "A"}
        k = 0
        for (p, o) in sorted(gene.mutations):
            if not o.startswith("ins") or p < 25 or G[p] not in sub:
                continue
            body = G[p - 19:p + 1]
            for cig, sq in (([("M", 20)], body[:-1] + sub[body[-1]]),
                            ([("M", 20), ("I", len(o) - 3)], body + o[3:]),
                            ([("M", 20), ("I", len(o) - 3), ("S", 3)], body + o[3:] + "ACG"),
                            ([("M", 20)], body)):
                reads.append({"name": f"e{k}", "pos": p - 19, "cig": cig, "seq": sq, "qual": [30] * len(sq), "mq": 60, "flag": 0})
                k += 1
    if case.get("spanread"):
        # (d) directed: one alignment that starts before the gene region and ends after it (a long read over a short gene), plus one
        # that starts exactly on the region's first base and one that ends exactly on its last base
        G = sim.genome
        a_, b_ = max(0, wide.start - 20), min(sim.L - 2, wide.end + 20)
        for nm_, s_, e_ in (("span", a_, b_), ("onstart", wide.start, min(b_, wide.start + 60)), ("onend", max(a_, wide.end - 60), wide.end)):
            if e_ - s_ > 5:
                sq = G[s_:e_]
                reads.append({"name": nm_, "pos": s_, "cig": [("M", e_ - s_)], "seq": sq, "qual": [30] * len(sq), "mq": 60, "flag": 0})
    for r in reads:
        a, b = refpile.ref_span(r)
        r["_ref"] = sim.genome[a:b + 1]
        if r["qual"] == [9]:
            r["qual"] = [8]  # a one-base read with Q9 is spelled '*' (= no qualities) in SAM text: not representable
    multi = {m.pos: m.op for a in gene.alleles.values() for ms_ in [a.func_muts, *(x.neutral_muts for x in a.minors.values())]
             for m in ms_ if ">" in m.op and len(m.op) > 3}
    positions = [i for g in gene.regions for rg in g.values() for i in range(rg.start, rg.end)]
    posset = set(positions)
    elig = [r for r in reads if refpile.eligible(r)]
    depth, obs, dele = refpile.pile(reads, gene, multi)

    ops_used = {o for r in elig for o, _ in r["cig"] if refpile.ref_span(r)[1] > wide.start and refpile.ref_span(r)[0] < wide.end}
    labels = [f"strand:{gene.strand:+d}", "indelpost" if case["indelpost"] else "noindelpost"] + [f"op:{o}" for o in sorted(ops_used)]
    if multi:
        labels.append("has-mnp")
    if any((k[1] in multi.values()) for k in obs):
        labels.append("mnp-complete")
    nontrivial = bool(ops_used - {"M"}) and len(elig) < len(reads)
    for fl, nm_ in ((refpile.SECONDARY, "secondary"), (refpile.SUPPL, "supplementary"), (refpile.DUP, "duplicate"),
                    (refpile.UNMAPPED, "unmapped"), (refpile.QCFAIL, "qcfail")):
        if any(r["flag"] & fl for r in reads):
            labels.append("flag:" + nm_)
    if any(any(o == "H" for o, _ in r["cig"]) for r in reads):
        labels.append("hardclip")
    if any("N" in r["seq"] for r in elig):
        labels.append("no-call-base")
    if any(r["name"].startswith("e") for r in reads):
        labels.append("reads-ending-on-an-insertion-site")
    if any(r["name"] == "span" for r in reads):
        labels.append("read-spanning-the-whole-gene-region")

    viol = []
    bam = write_reads(os.path.join(d, "r.bam"), sim, reads, "bam")

    def load(path):
        return Sample(gene, Profile("x", cn_solution=["1", "1"], indelpost=case["indelpost"]), path)

    s = load(bam)
    cov = s.coverage
    # htslib's own opinion on depth (eligible reads only)
    ebam = write_reads(os.path.join(d, "e.bam"), sim, elig, "bam")
    hts = collections.Counter()
    with pysam.AlignmentFile(ebam) as f:
        for col in f.pileup(gene.chr, max(0, wide.start - 1), wide.end + 1, stepper="nofilter", ignore_orphans=False,
                            min_base_quality=0, ignore_overlaps=False, flag_filter=0, truncate=True, max_depth=1000000):
            hts[col.reference_pos] = sum(1 for pr in col.pileups if not pr.is_refskip)
    disagree = [p for p in positions if hts.get(p, 0) != depth.get(p, 0)]
    if disagree:
        labels.append("oracles-disagree")
    dis = set(disagree)
    bad = [(p, cov.total(p), depth.get(p, 0)) for p in positions if p not in dis and cov.total(p) != depth.get(p, 0)]
    if bad:
        kinds = "+".join(sorted(ops_used))
        viol.append(V("depth-mismatch", ops=kinds, examples=bad[:5], n=len(bad)))
    # alleles and qualities inside the mapped part
    got = table_of(s, positions)
    got_all = got  # unfiltered: what the re-loads below are compared with
    exp = {}
    for (p, op), lst in obs.items():
        if p not in posset:
            continue
        if op in multi.values() and (p, op) and len(op) > 3:
            exp[(p, op)] = len(lst)
        else:
            exp[(p, op)] = lst
    for p, n in dele.items():
        if p in posset:
            exp[(p, "-")] = n
    # outside the RefSeq-mapped span every observation, deleted bases included, is a reference observation: only depth is comparable
    blo, bhi = min(gene.chr_to_ref), max(gene.chr_to_ref)
    got = {k: v for k, v in got.items() if blo <= k[0] <= bhi}
    exp = {k: v for k, v in exp.items() if blo <= k[0] <= bhi}
    keys = set(got) | set(exp)
    for k in sorted(keys):
        p, op = k
        g_ = got.get(k, [])
        e_ = exp.get(k, [] if op != "-" and not (len(op) > 3 and ">" in op) else 0)
        if isinstance(e_, int):
            if len(g_) != e_:
                viol.append(V("count-mismatch:" + ("deleted" if op == "-" else "mnp"), pos=p, op=op, got=len(g_), want=e_))
                break
            continue
        if len(g_) != len(e_):
            kind = "ref" if op == "_" else "sub"
            viol.append(V(f"count-mismatch:{kind}" + ("" if p in gene else ":unmapped"), pos=p, op=op, got=len(g_), want=len(e_),
                          strand=gene.strand))
            break
        e_bin = sorted((float(bin_quality(m)), float(bin_quality(q))) for m, q in e_)
        e_raw = sorted((float(m), float(bin_quality(q))) for m, q in e_)
        if g_ != e_bin and g_ != e_raw:
            viol.append(V("quality-mismatch", pos=p, op=op, got=g_[:6], want_binned=e_bin[:6]))
            break
    # ineligible reads contribute nothing: removing them leaves the table identical
    if len(elig) < len(reads):
        t2 = table_of(load(ebam), positions)
        if t2 != got_all:
            viol.append(V("ineligible-reads-contribute", diff=str(sorted(set(map(str, t2.items())) ^ set(map(str, got_all.items())))[:4])[:500]))
    # order invariance (un-indexed SAM, permuted) and CIGAR re-encoding invariance
    perm = list(range(len(reads)))
    random.Random(case["perm"]).shuffle(perm)
    samp = write_reads(os.path.join(d, "perm.sam"), sim, reads, "sam", order=perm)
    t3 = table_of(load(samp), positions)
    if t3 != got_all:
        viol.append(V("order-dependent", diff=str(sorted(set(map(str, t3.items())) ^ set(map(str, got_all.items())))[:4])[:500]))
    re = split_cigar(reads, gene, case["perm"])
    t4 = table_of(load(write_reads(os.path.join(d, "split.bam"), sim, re, "bam")), positions)
    if t4 != got_all:
        viol.append(V("cigar-encoding-dependent", diff=str(sorted(set(map(str, t4.items())) ^ set(map(str, got_all.items())))[:4])[:500]))
    # phase record
    frag = collections.defaultdict(list)
    for r in elig:
        a, b = refpile.ref_span(r)
        if a <= wide.end and wide.start <= b:  # the reads aldy parses
            frag[r["name"]].append(r)
    catpos = {p for p, _ in gene.mutations}
    ins_only = {p for p, o in gene.mutations if o.startswith("ins")} - {p for p, o in gene.mutations if not o.startswith("ins")}
    for name, rs in frag.items():
        ph = s.phases.get(name, {})
        shown = collections.defaultdict(set)
        covered = set()
        for r in rs:
            lab, al = refpile.phase_labels(r, gene, multi)
            for p, ls in lab.items():
                shown[p] |= ls
            # an insertion site (the junction after p) is covered only by a read that continues past p
            last = refpile.ref_span(r)[1] - 1
            covered |= {p for p in al if not (p == last and p in ins_only and lab.get(p) == {"_"})}
        for p in catpos:
            if p in ph and ph[p] not in shown.get(p, set()):
                viol.append(V("phase-label-not-shown-by-fragment", fragment=name, pos=p, label=ph[p], shown=sorted(shown.get(p, set()))))
                break
            if p in covered and p not in ph:
                viol.append(V("phase-label-missing", fragment=name, pos=p, shown=sorted(shown.get(p, set()))))
                break
        else:
            continue
        break
    return Result(viol, labels, nontrivial)


@st.composite
def read_desc(draw):
    body = draw(st.lists(st.tuples(st.sampled_from(OPS), st.integers(1, 40)).map(list), min_size=1, max_size=8))
    cig = []
    if draw(st.integers(0, 9)) == 0:
        cig.append(["H", draw(st.integers(1, 20))])
    if draw(st.integers(0, 3)) == 0:
        cig.append(["S", draw(st.integers(1, 15))])
    cig += body
    if draw(st.integers(0, 3)) == 0:
        cig.append(["S", draw(st.integers(1, 15))])
    if draw(st.integers(0, 9)) == 0:
        cig.append(["H", draw(st.integers(1, 20))])
    flag = 0
    for bit, odds in ((0x100, 8), (0x800, 8), (0x400, 8), (0x200, 10), (0x10, 2), (0x4, 12)):
        if draw(st.integers(0, odds)) == 0:
            flag |= bit
    if draw(st.booleans()):
        flag |= 0x1 | draw(st.sampled_from([0x40, 0x80]))
    return {"start": draw(st.integers(0, 3000)), "cig": cig, "flag": flag, "mq": draw(st.sampled_from([0, 1, 5, 9, 10, 11, 20, 29, 30, 39, 40, 60])),
            "mm": draw(st.sampled_from([0, 0, 2, 10])), "name": draw(st.integers(0, 12)), "nn": draw(st.sampled_from([0, 0, 0, 3, 25]))}


def strategy(tier):
    return st.fixed_dictionaries({
        "db": gen_db.db_specs(sv=False, kinds=["snp", "snp", "mnp", "mnp", "ins", "del"], small=True),
        "build": st.sampled_from(["hg19", "hg38"]),
        "allele": st.integers(0, 30),
        "rl": st.sampled_from([40, 80, 120]),
        "reads": st.lists(read_desc(), min_size=5, max_size=60),
        "indelpost": st.booleans(),
        "endreads": st.booleans(),
        "spanread": st.booleans(),
        "perm": st.integers(0, 10 ** 6),
        "sim_seed": st.integers(0, 10 ** 6),
    })


def budget(tier):
    return {"examples": 400 if tier == "quick" else 12000, "shards": 16}


# ------------------------------------------------------------------ shipped BAMs (real aligner output)
SHIPPED_BAMS = [("NA10860.bam", "hg19"), ("NA10860_hg38.bam", "hg38"), ("HG03166.pb.bam", "hg38")]


def run_bam(case):
    """The depth / allele-count / quality / ineligible-read / phase clauses on a shipped BAM (CYP2D6), indelpost on or off."""
    import pysam
    from aldy.gene import Gene
    from aldy.sam import Sample
    from aldy.profile import Profile
    from aldy.common import script_path
    from lib import gen_sol

    gene = gen_sol.shipped("cyp2d6", case["build"])
    path = script_path("aldy.tests.resources/" + case["file"])
    wide = gene.get_wide_region()
    inv = {v: k for k, v in refpile.CODES.items()}
    reads = []
    with pysam.AlignmentFile(path) as f:
        prefix = "chr" if ("chr" + gene.chr) in f.references else ""
        hdr = f.header.to_dict()
        for r in f.fetch(until_eof=True):
            if r.is_unmapped or r.reference_name != prefix + gene.chr:
                continue
            if r.reference_end is None or r.reference_end < wide.start - 600 or r.reference_start > wide.end + 600:
                continue
            q = list(r.query_qualities) if r.query_qualities is not None else None
            reads.append({"name": r.query_name, "pos": r.reference_start, "cig": [(inv[o], n) for o, n in (r.cigartuples or [])],
                          "seq": r.query_sequence or "", "qual": q if q is not None else [10] * len(r.query_sequence or ""),
                          "mq": r.mapping_quality, "flag": r.flag, "_noqual": q is None})
    multi = {m.pos: m.op for a in gene.alleles.values() for ms_ in [a.func_muts, *(x.neutral_muts for x in a.minors.values())]
             for m in ms_ if ">" in m.op and len(m.op) > 3}
    positions = [i for g in gene.regions for rg in g.values() for i in range(rg.start, rg.end)]
    posset = set(positions)
    elig = [r for r in reads if refpile.eligible(r)]
    depth, obs, dele = refpile.pile(reads, gene, multi)
    s = Sample(gene, Profile("x", cn_solution=["1", "1"], indelpost=case["indelpost"]), path)
    cov = s.coverage
    viol = []
    labels = ["shipped-bam:" + case["file"], "indelpost" if case["indelpost"] else "noindelpost"]
    bad = [(p, cov.total(p), depth.get(p, 0)) for p in positions if cov.total(p) != depth.get(p, 0)]
    if bad:
        viol.append(V("depth-mismatch", examples=bad[:5], n=len(bad), file=case["file"]))
    blo, bhi = min(gene.chr_to_ref), max(gene.chr_to_ref)
    got = {k: v for k, v in table_of(s, positions).items() if blo <= k[0] <= bhi}
    obs = {k: v for k, v in obs.items() if blo <= k[0] <= bhi}
    dele = {k: v for k, v in dele.items() if blo <= k <= bhi}
    noqual = any(r["_noqual"] for r in elig)
    for (p, op), lst in obs.items():
        if p not in posset:
            continue
        g_ = got.get((p, op), [])
        if len(g_) != len(lst):
            viol.append(V("count-mismatch:" + ("mnp" if len(op) > 3 and ">" in op else "ref" if op == "_" else "sub"), pos=p, op=op, got=len(g_), want=len(lst), file=case["file"]))
            break
        if not noqual and not (len(op) > 3 and ">" in op):
            e_bin = sorted((float(bin_quality(m)), float(bin_quality(q))) for m, q in lst)
            e_raw = sorted((float(m), float(bin_quality(q))) for m, q in lst)
            if g_ != e_bin and g_ != e_raw:
                viol.append(V("quality-mismatch", pos=p, op=op, got=g_[:6], want_binned=e_bin[:6]))
                break
    for k in got:
        if k[1] not in ("-",) and k not in obs and got[k]:
            viol.append(V("count-mismatch:unexpected-entry", pos=k[0], op=k[1], got=len(got[k])))
            break
    for p, n in dele.items():
        if p in posset and len(got.get((p, "-"), [])) != n:
            viol.append(V("count-mismatch:deleted", pos=p, got=len(got.get((p, "-"), [])), want=n))
            break
    # phases
    frag = collections.defaultdict(list)
    for r in elig:
        a, b = refpile.ref_span(r)
        if a <= wide.end and wide.start <= b:
            frag[r["name"]].append(r)
    catpos = {p for p, _ in gene.mutations}
    ins_only = {p for p, o in gene.mutations if o.startswith("ins")} - {p for p, o in gene.mutations if not o.startswith("ins")}
    nfr = 0
    for name, rs in frag.items():
        ph = s.phases.get(name, {})
        shown = collections.defaultdict(set)
        covered = set()
        for r in rs:
            lab, al = refpile.phase_labels(r, gene, multi)
            for p, ls in lab.items():
                shown[p] |= ls
            last = refpile.ref_span(r)[1] - 1
            covered |= {p for p in al if not (p == last and p in ins_only and lab.get(p) == {"_"})}
        nfr += 1
        stop = False
        for p in catpos:
            if p in ph and ph[p] not in shown.get(p, set()):
                viol.append(V("phase-label-not-shown-by-fragment", fragment=name, pos=p, label=ph[p], shown=sorted(shown.get(p, set()))))
                stop = True
                break
            if p in covered and p not in ph:
                viol.append(V("phase-label-missing", fragment=name, pos=p, shown=sorted(shown.get(p, set()))))
                stop = True
                break
        if stop:
            break
    return Result(viol, labels, True, info={"reads": len(reads), "eligible": len(elig), "fragments": nfr})


_orig_run_case = run_case


def run_case(case):  # noqa
    if case.get("kind") == "shipped_bam":
        return run_bam(case)
    return _orig_run_case(case)


def enum_cases(tier):
    return [{"kind": "shipped_bam", "file": f, "build": b, "indelpost": ip} for f, b in SHIPPED_BAMS for ip in (False, True)]
