"""C05 - the ILP layer returns true optima and exact linearisations."""
import collections
import itertools
import random

from hypothesis import strategies as st

from lib import lprecorder, gen_sol
from lib.runner import Result, V

ID = "C05"
CASE_TIMEOUT = 20
RULE = ("part i: random models of the shape aldy builds (2-8 binaries, 1-5 free error terms tied by <=/>= pairs, cardinality equalities, "
        "ordering, exclusions, products through model.prod, abssum objective + non-negative penalties, gap in {0,0.1,0.5}, names with "
        "the characters escape_name rewrites and duplicates) built through aldy.lpinterface.model(..,'cbc') and compared with exhaustive "
        "enumeration; part ii (exhaustive): prod of 1-4 factors over all factor assignments, abssum over all sign patterns of 1-4 terms; "
        "part iii: every model aldy builds for drawn structure / major / minor problems on the toy gene, and while generated cases of the "
        "C02 / C03 / C04 checks run (generated databases, CYP2A6, GSTM1), is audited with SCIP and HiGHS on the exported model and re-solved "
        "after exhaustion; non-trivial = >= 2 feasible points within the gap, or a superset relation among "
        "feasible points, or (iii) a model with >= 20 variables; distinct = case JSON")
ASSUMPTIONS = ["objective comparisons at 1e-4; candidates within 2e-4 of the gap bound are not judged",
               "SCIP and HiGHS (OR-Tools back ends) are the independent solvers; a defect shared by CBC, SCIP and HiGHS is out of reach",
               "Gurobi back end not installed: CBC path only"]
EXPLANATION = "differential: enumeration of all binary assignments (i), exhaustive helper linearisations (ii), cross-solver audit of aldy's own models (iii)"


# ------------------------------------------------------------------------------------------- part i
def run_lp(case):
    from aldy import lpinterface

    nb = case["nb"]
    gap = case["gap"]
    m = lpinterface.model("t", "cbc")
    style = case["names"]
    nm = [(f"b.{i}-x#{i % 2}>" if style == 1 else ("dup" if style == 2 and i % 3 == 0 else f"B_{i}")) for i in range(nb)]
    if style == 3:  # longer than the 200-character limit, distinct only after it (names of alleles that list many variants)
        nm = ["A_1001+" + "42126600AG+" * 19 + f"tail{i}" for i in range(nb)]
    elif style == 4:  # the same over-long name several times, next to short ones
        nm = [("K_" + "x" * 230) if i % 2 == 0 else f"B_{i}" for i in range(nb)]
    B = [m.addVar(vtype="B", name=nm[i]) for i in range(nb)]
    names = [m.varName(b) for b in B]
    viol = []
    if len(set(names)) != nb:
        viol.append(V("escaped-names-not-unique", names=names))
        return viol, 0, []
    E = []
    rows = []
    for j, (co, rhs) in enumerate(case["rows"]):
        co = (co + [0] * nb)[:nb]
        rhs = rhs / 100.0
        if case.get("planted") is not None:
            # exact evidence: the right-hand side is what the planted assignment produces (optimum 0 unless a constraint excludes it)
            xs = [(case["planted"] >> i) & 1 for i in range(nb)]
            rhs = float(sum(c * x for c, x in zip(co, xs)))
        e = m.addVar(lb=-m.INF, ub=m.INF, name=f"E_{j}")
        ex = sum(c * b for c, b in zip(co, B)) + e
        m.addConstr(ex <= rhs, name="C")
        m.addConstr(ex >= rhs, name="C")
        rows.append((co, rhs))
        E.append(e)
    cons = []
    for kind, a, b in case["cons"]:
        if kind == "card":
            S = sorted({i % nb for i in a})
            k = b % (len(S) + 1)
            m.addConstr(sum(B[i] for i in S) <= k, name="CARD")
            m.addConstr(sum(B[i] for i in S) >= k, name="CARD")
            cons.append(("card", S, k))
        elif kind == "ord":
            i = 1 + a[0] % (nb - 1)
            m.addConstr(B[i] <= B[i - 1], name="ORD")
            cons.append(("ord", i))
        elif kind == "excl":
            i, j = a[0] % nb, a[1] % nb
            if i != j:
                m.addConstr(B[i] + B[j] <= 1, name="EX")
                cons.append(("excl", i, j))
    prods = []
    for t, w in case["prods"]:
        t = sorted({i % nb for i in t})
        p = m.addVar(vtype="B", name=f"P{len(prods)}")
        m.prod(p, [B[i] for i in t])
        prods.append((t, 0.0 if case.get("planted") is not None else w / 100.0, m.varName(p), p))
    pen = [(x / 100.0) for x in (case["pen"] + [0] * nb)[:nb]]
    if case.get("planted") is not None:
        pen = [0.0] * nb
    wts = (case["w"] + [1] * len(E))[:len(E)]
    coeffs = {m.varName(E[j]): wts[j] for j in range(len(E))}
    obj = m.abssum(E, coeffs=coeffs) + sum(p * b for p, b in zip(pen, B))
    for t, w, pn, p in prods:
        obj += w * p
    cont = None
    if case.get("cont"):
        # a continuous variable bounded to [0, 1] and pinned to 0.8 (not in the objective): it is not a binary, must be read back as a
        # real number and must never appear among the names of a yielded solution
        cont = m.addVar(lb=0, ub=1, name="F_cont")
        m.addConstr(cont >= 0.8, name="PIN")
        m.addConstr(cont <= 0.8, name="PIN")
    m.setObjective(obj)
    # --- enumeration
    feas = {}
    for x in itertools.product([0, 1], repeat=nb):
        ok = True
        for c in cons:
            if c[0] == "card" and sum(x[i] for i in c[1]) != c[2]:
                ok = False
            elif c[0] == "ord" and x[c[1]] > x[c[1] - 1]:
                ok = False
            elif c[0] == "excl" and x[c[1]] + x[c[2]] > 1:
                ok = False
        if not ok:
            continue
        o = sum(wts[j] * abs(rows[j][1] - sum(c * xi for c, xi in zip(rows[j][0], x))) for j in range(len(E)))
        o += sum(p * xi for p, xi in zip(pen, x))
        key = set(names[i] for i in range(nb) if x[i])
        for t, w, pn, p in prods:
            if all(x[i] for i in t):
                o += w
                key.add(pn)
        feas[frozenset(key)] = o
    sols = []
    for st_, o, nms in m.solutions(gap):
        sols.append((st_, o, nms))
        if len(sols) > 600:
            break
        # typed read-back
        for b in B[:2]:
            if not isinstance(m.getValue(b), bool):
                viol.append(V("getValue-not-bool-for-binary", got=str(type(m.getValue(b)))))
        if cont is not None:
            cv = m.getValue(cont)
            if isinstance(cv, bool) or abs(float(cv) - 0.8) > 1e-6:
                viol.append(V("continuous-variable-read-back-wrong", got=repr(cv)))
            if m.is_binary(cont):
                viol.append(V("continuous-variable-classified-as-binary"))
    if not feas:
        if sols:
            viol.append(V("solutions-for-infeasible-model", n=len(sols)))
        return viol, 0, []
    best = min(feas.values())
    if not sols:
        viol.append(V("no-solution-for-feasible-model", best=best))
        return viol, len(feas), []
    if abs(sols[0][1] - best) > 1e-4:
        viol.append(V("first-solution-not-optimal", got=sols[0][1], best=best))
    seen = set()
    prev = -1e18
    for st_, o, nms in sols:
        k = frozenset(nms)
        if k in seen:
            viol.append(V("assignment-yielded-twice", names=sorted(nms)))
        seen.add(k)
        if k not in feas:
            viol.append(V("yielded-assignment-infeasible", names=sorted(nms)))
        elif abs(feas[k] - o) > 1e-4:
            viol.append(V("yielded-objective-wrong", got=o, want=feas[k]))
        if o > (1 + gap) * best + 1e-4:
            viol.append(V("yielded-outside-gap", obj=o, best=best, gap=gap))
        if o < prev - 1e-5:
            viol.append(V("objectives-decrease", obj=o, prev=prev))
        prev = o
    within = 0
    sup = 0
    for k, o in feas.items():
        if o < (1 + gap) * best - 2e-4:
            within += 1
            if k not in seen:
                sup += 1
                if not any(s <= k and feas.get(s, 1e18) <= o + 1e-4 for s in seen):
                    viol.append(V("within-gap-assignment-lost", names=sorted(k), obj=o, best=best, gap=gap))
    extra = ["superset-skipped"] if sup else []
    if abs(best) < 1e-9 and gap > 0 and any(0 < o <= gap for o in feas.values()):
        extra.append("zero-optimum-with-competitor-below-the-gap-value")
    return viol, within, extra


# ------------------------------------------------------------------------------------------- part ii
def run_prod(n, x):
    from aldy import lpinterface

    out = []
    for sense in ("min", "max"):
        m = lpinterface.model("p", "cbc")
        F = [m.addVar(vtype="B", name=f"F{i}") for i in range(n)]
        for f, v in zip(F, x):
            m.addConstr(f <= v, name="fix")
            m.addConstr(f >= v, name="fix")
        r = m.addVar(vtype="B", name="R")
        m.prod(r, F)
        m.setObjective(r + 0, method=sense)
        st_, o = m.solve()
        out.append(round(o))
    want = int(all(x))
    if out != [want, want]:
        return [V("product-not-AND", factors=list(x), min_value=out[0], max_value=out[1])]
    return []


def run_abs(vals, coefs):
    from aldy import lpinterface

    m = lpinterface.model("a", "cbc")
    X = []
    for i, v in enumerate(vals):
        x = m.addVar(lb=-m.INF, ub=m.INF, name=f"E_{i}")
        m.addConstr(x <= v, name="fix")
        m.addConstr(x >= v, name="fix")
        X.append(x)
    co = {m.varName(x): c for x, c in zip(X, coefs)}
    obj = m.abssum(X, coeffs=co)
    m.setObjective(obj)
    st_, o = m.solve()
    want = sum(c * abs(v) for c, v in zip(coefs, vals))
    if abs(o - want) > 1e-6:
        return [V("abssum-not-sum-of-absolute-values", values=list(vals), coefs=list(coefs), got=o, want=want)]
    return []


# ------------------------------------------------------------------------------------------- part iii
def run_audit(case):
    from aldy.gene import Mutation
    from aldy.profile import Profile
    from aldy.coverage import Coverage
    from aldy.solutions import CNSolution, MajorSolution, SolvedAllele
    from aldy.cn import solve_cn_model
    from aldy.major import estimate_major
    from aldy.minor import estimate_minor

    gene = gen_sol.shipped("toy", "hg19")
    rng = random.Random(case["seed"])
    prof = Profile("t")
    prof.gap = case["gap"]
    findings = []
    stats = collections.Counter()
    with lprecorder.audit(findings, stats):
        if case["stage"] == "cn":
            pl = rng.choice([["1", "1"], ["1", "4"], ["1", "5"], ["1", "6"], ["1", "1", "1"], ["4", "4", "1"], ["5", "1", "1"], ["6", "6"], ["4", "5"]])
            cov = {}
            for r in gene.unique_regions:
                g = sum(gene.cn_configs[c].cn[0][r] for c in pl)
                p = sum(gene.cn_configs[c].cn[1][r] for c in pl[:2]) + sum(gene.cn_configs[c].cn[1][r] - 1 for c in pl[2:])
                cov[r] = (max(0, g + round(rng.uniform(-.5, .5), 2)), max(0, p + round(rng.uniform(-.5, .5), 2)))
            solve_cn_model(gene, prof, gene.cn_configs, rng.choice([3, 4, 5]), cov, "cbc")
        else:
            struct = rng.choice([["1", "1"], ["1"], ["1", "1", "1"], ["1", "4"], ["1", "5"], ["4", "4", "1"]])
            cn = CNSolution(gene, 0, struct)
            sel = [rng.choice([a for a in gene.alleles if gene.alleles[a].cn_config == cf]) for cf in struct]
            d = rng.choice([10, 20, 30])
            raw = collections.defaultdict(dict)
            sites = [(m, gene.is_functional(m)) for m in gene.mutations]
            for (p, o), f in sites:
                car = sum(1 for a in sel if Mutation(p, o) in gene.alleles[a].func_muts)
                if rng.random() < .2:
                    car += 1
                n = max(0, round(d * car * rng.uniform(.6, 1.4)))
                if n:
                    raw[p][o] = [(60, 60)] * n
            for p in set(p for (p, o), f in sites):
                e = sum(1 for a in sel if gene.has_coverage(a, p))
                n = max(0, round(d * e * rng.uniform(.5, 1.2)))
                if n:
                    raw[p]["_"] = [(60, 60)] * n
            cov = Coverage(gene, prof, None, {p: dict(v) for p, v in raw.items()}, None, {})
            majors = estimate_major(gene, cov, cn, "cbc")
            if case["stage"] == "minor" and majors:
                estimate_minor(gene, cov, majors[:2], "cbc", max_solutions=rng.choice([1, 2]))
    viol = [V("audit:" + f["clause"], **{k: v for k, v in f.items() if k != "clause"}) for f in findings]
    return viol, stats


def run_audit_other(case):
    """Audit every model aldy builds while another property's generated case runs (its own verdict is ignored here)."""
    from lib import runner

    mod = runner.load_mod(case["module"])
    findings = []
    stats = collections.Counter()
    with lprecorder.audit(findings, stats, heavy=True):
        mod.run_case(case["case"])
    viol = [V("audit:" + f["clause"], **{k: v for k, v in f.items() if k != "clause"}) for f in findings]
    return viol, stats


def run_limit(case):
    """A model too large to close within a tiny time limit handed over through the `init` hook: the optimum (0, planted) is known by
    construction; whatever the solver manages, the first yielded solution must be a global optimum - an unfinished search yields nothing."""
    import random as _r
    from aldy import lpinterface

    rng = _r.Random(case["seed"])
    nb, nr = case["nb"], case["rows"]
    m = lpinterface.model("lim", "cbc")
    B = [m.addVar(vtype="B", name=f"A_{i}") for i in range(nb)]
    xs = [rng.randrange(2) for _ in range(nb)]
    E = []
    for j in range(nr):
        co = [rng.choice([0, 1, 1, 2, 3]) for _ in range(nb)]
        e = m.addVar(lb=-m.INF, ub=m.INF, name=f"E_{j}")
        ex = sum(c * b for c, b in zip(co, B)) + e
        rhs = float(sum(c * x for c, x in zip(co, xs)))
        m.addConstr(ex <= rhs, name="C")
        m.addConstr(ex >= rhs, name="C")
        E.append(e)
    m.setObjective(m.abssum(E))
    ms = case["ms"]
    viol = []
    first = None
    for st_, o, nms in m.solutions(0, init=lambda mdl: mdl.SetTimeLimit(ms)):
        first = (st_, o)
        break
    labels = ["time-limit", "limit:yielded" if first else "limit:nothing-yielded"]
    if first is not None and first[1] > 1e-6:
        if first[0] != "optimal":
            viol.append(V("first-yielded-solution-not-optimal-under-a-time-limit", status=first[0], objective=first[1], optimum=0.0, ms=ms))
        else:
            labels.append("backend-claims-optimal-above-the-planted-optimum")  # the backend's own fault (cf. KF-CBC), not the interface's
    return Result(viol, labels, True)


def run_case(case):
    kind = case["kind"]
    if kind == "limit":
        return run_limit(case)
    if kind == "audit2":
        viol, stats = run_audit_other(case)
        return Result(viol, [f"audit2:{case['module']}"], stats["models>=20vars"] > 0, info=dict(stats))
    if kind == "lp":
        viol, within, extra = run_lp(case)
        labels = [f"gap:{case['gap']}", f"nb:{case['nb']}", f"within:{min(within, 5)}"] + extra
        return Result(viol, labels, within >= 2 or bool(extra))
    if kind == "prod":
        return Result(run_prod(case["n"], case["x"]), ["prod", f"n:{case['n']}"], True)
    if kind == "abs":
        return Result(run_abs(case["vals"], case["coefs"]), ["abssum", f"n:{len(case['vals'])}"], True)
    viol, stats = run_audit(case)
    labels = [f"audit:{case['stage']}"] + [k for k in stats if k.startswith("backend-missing")]
    return Result(viol, labels, stats["models>=20vars"] > 0, info=dict(stats))


def enum_cases(tier):
    out = []
    for n in range(1, 5):
        for x in itertools.product([0, 1], repeat=n):
            out.append({"kind": "prod", "n": n, "x": list(x)})
    for n in range(1, 5):
        for signs in itertools.product([-1, 0, 1], repeat=n):
            for coefs in ([1, 2, 0.5, 3], [0, 1, 0, 2], [2, 0, 1, 0]):  # zero weights are legal (e.g. cn_pce_penalty=0)
                out.append({"kind": "abs", "vals": [s * (0.75 + i) for i, s in enumerate(signs)], "coefs": coefs[:n]})
    return out


def strategy(tier):
    lp = st.integers(2, 8).flatmap(lambda nb: st.fixed_dictionaries({
        "kind": st.just("lp"), "nb": st.just(nb), "gap": st.sampled_from([0, 0.1, 0.5]), "names": st.sampled_from([0, 1, 2, 3, 4]),
        "rows": st.lists(st.tuples(st.lists(st.sampled_from([0, 0, 1, 1, 2]), min_size=nb, max_size=nb), st.integers(0, 300)).map(list),
                         min_size=1, max_size=5),
        "cons": st.lists(st.one_of(
            st.tuples(st.just("card"), st.lists(st.integers(0, 7), min_size=1, max_size=nb), st.integers(0, 8)),
            st.tuples(st.just("ord"), st.lists(st.integers(0, 7), min_size=1, max_size=1), st.just(0)),
            st.tuples(st.just("excl"), st.lists(st.integers(0, 7), min_size=2, max_size=2), st.just(0))).map(list), max_size=4),
        "prods": st.lists(st.tuples(st.lists(st.integers(0, 7), min_size=1, max_size=3), st.integers(0, 100)).map(list), max_size=2),
        "pen": st.lists(st.integers(0, 100), min_size=nb, max_size=nb),
        "w": st.lists(st.sampled_from([1, 1, 2, 0, 0.5, 0.2]), min_size=5, max_size=5),
        "planted": st.none() | st.none() | st.integers(0, 2 ** nb - 1),
        "cont": st.booleans(),
    }))
    audit = st.fixed_dictionaries({"kind": st.just("audit"), "stage": st.sampled_from(["cn", "major", "minor"]),
                                   "gap": st.sampled_from([0, 0.1, 0.3]), "seed": st.integers(0, 10 ** 6)})
    from props import C02, C03, C04

    def other(modname, mod, keep):
        return mod.strategy(tier).filter(keep).map(lambda c: {"kind": "audit2", "module": modname, "case": c})

    audit2 = st.one_of(other("C02", C02, lambda c: c["kind"] == "opt"), other("C03", C03, lambda c: c["kind"] == "model" and c["gene"] != "cyp2d6"),
                       other("C04", C04, lambda c: c["kind"] == "opt"))
    limit = st.fixed_dictionaries({"kind": st.just("limit"), "nb": st.sampled_from([40, 60, 80]), "rows": st.integers(5, 8),
                                   "ms": st.sampled_from([20, 60, 150]), "seed": st.integers(0, 10 ** 6)})
    return st.sampled_from(["lp"] * 24 + ["audit"] * 4 + ["audit2"] * 4 + ["limit"]).flatmap(
        lambda k: {"lp": lp, "audit": audit, "audit2": audit2, "limit": limit}[k])


def budget(tier):
    return {"examples": 3200 if tier == "quick" else 60000, "shards": 16}
