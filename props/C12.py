"""C12 - result files state exactly the reported solutions."""
import collections
import io
import random

from hypothesis import strategies as st

from lib import gen_db, gen_sol, refseq
from lib.runner import Result, V

ID = "C12"
RULE = ("case = gene (toy, CYP2D6 or a generated catalogue with SNP / MNP / insertion / deletion alleles) x list of 1-4 solutions with 1-4 "
        "allele copies each (random minors, added core/silent variants, lost silent variants; solutions differ from each other) x drawn "
        "read counts; write_decomposition and write_vcf are called and their text is parsed back with parsers written from the README "
        "column list and the VCF 4.2 grammar; non-trivial = >= 2 solutions that differ in a carried variant, or a copy with a lost variant, "
        "or an indel / MNP record; distinct = case JSON")
ASSUMPTIONS = [
    "decomposition Location is zero-based as the README states; VCF POS is one-based",
    "REF/ALT are judged representation-agnostically: applying (POS, REF, ALT) to the genome reference must give the haplotype of the variant",
    "two recorded findings (shared genotype table across solutions; lost variants not subtracted) are matched only when the output equals exactly the table those defects produce",
]
EXPLANATION = "round trip: write -> parse -> compare with the solutions; known-wrong expectations computed alongside the correct one"

GENES = ["toy", "cyp2d6", "gen", "gen"]


def carried(gene, a, with_missing=True):
    ms = set(gene.alleles[a.major].func_muts) | set(gene.alleles[a.major].minors[a.minor].neutral_muts) | set(a.added)
    if with_missing:
        ms -= set(a.missing)
    return {tuple(m) for m in ms}


def run_case(case):
    from aldy.gene import Mutation
    from aldy.coverage import Coverage
    from aldy.profile import Profile
    from aldy.diplotype import write_decomposition, write_vcf, estimate_diplotype, OUTPUT_COLS

    if case["gene"] == "gen":
        gene = gen_sol.generated(case["db"], case["build"], "c12")
    else:
        gene = gen_sol.shipped(case["gene"], case["build"])
    rng = random.Random(case["seed"])
    sols = []
    for k, picks in enumerate(case["solutions"]):
        s = gen_sol.make_solution(gene, picks, case["seed"] + 17 * k, score=1.0 + k)
        estimate_diplotype(gene, s)
        sols.append(s)
    prof = Profile("t")
    table = {}
    for (p, o) in gene.mutations:
        if rng.random() < 0.8:
            table.setdefault(p, {})[o] = [(60, 60)] * rng.randrange(1, 40)
            table[p]["_"] = [(60, 60)] * rng.randrange(1, 40)
    cov = Coverage(gene, prof, None, table, None, {})
    viol = []
    labels = [f"gene:{case['gene']}", f"nsol:{len(sols)}", f"strand:{gene.strand:+d}"]
    allcar = [[carried(gene, a) for a in s.solution] for s in sols]
    kinds = set()
    for cs in allcar:
        for c in cs:
            for p, o in c:
                kinds.add("ins" if o.startswith("ins") else "del" if o.startswith("del") else "mnp" if len(o) > 3 else "snp")
    labels += [f"var:{k}" for k in kinds]
    if any(a.missing for s in sols for a in s.solution):
        labels.append("has-missing")
    differ = len(sols) >= 2 and any(collections.Counter(map(frozenset, allcar[0])) != collections.Counter(map(frozenset, c)) for c in allcar[1:])
    if differ:
        labels.append("solutions-differ")

    # ------------------------------------------------------------------ decomposition
    buf = io.StringIO()
    for i, s in enumerate(sols):
        write_decomposition("smp", gene, cov, i + 1, s, buf)
    rows = [ln.split("\t") for ln in buf.getvalue().splitlines()]
    per = collections.defaultdict(list)
    for r in rows:
        if len(r) < 13:
            viol.append(V("decomposition-row-too-short", row=r))
            continue
        per[(int(r[2]), int(r[5]))].append(r)
    for i, s in enumerate(sols):
        major = s.get_major_diplotype().replace(" ", "")
        minors = ";".join(a.minor for a in s.solution)
        for j, a in enumerate(s.solution):
            rs = per.get((i + 1, j), [])
            want = allcar[i][j]
            if not rs:
                viol.append(V("decomposition-copy-missing", solution=i + 1, copy=j))
                continue
            if not want:
                if len(rs) != 1 or any(x != "" for x in rs[0][7:13]):
                    viol.append(V("decomposition-empty-copy-row", rows=rs[:2]))
            else:
                got = set()
                for r in rs:
                    if r[7] == "":
                        viol.append(V("decomposition-empty-row-for-copy-with-variants", row=r))
                        continue
                    got.add((int(r[7]), r[8]))
                    m = Mutation(int(r[7]), r[8])
                    if r[9] != str(cov[m]):
                        viol.append(V("decomposition-coverage-column", got=r[9], want=str(cov[m])))
                    fn = gene.mutations[tuple(m)][0] if tuple(m) in gene.mutations else None
                    if r[10] != (fn if fn else "none"):
                        viol.append(V("decomposition-effect-column", got=r[10], want=fn))
                    rsid = gene.mutations[tuple(m)][1] if tuple(m) in gene.mutations else "-"
                    if r[11] != rsid:
                        viol.append(V("decomposition-dbsnp-column", got=r[11], want=rsid))
                if got != want:
                    tag = "lost-not-subtracted" if got == carried(gene, a, with_missing=False) and a.missing else "other"
                    viol.append(V(f"decomposition-variants:{tag}", solution=i + 1, copy=j, extra=sorted(got - want)[:3], missing=sorted(want - got)[:3]))
                if len(rs) != len(got):
                    viol.append(V("decomposition-duplicate-rows", solution=i + 1, copy=j))
            for r in rs:
                if r[0] != "smp" or r[1] != gene.name or r[3] != major or r[4] != minors or r[6] != a.minor:
                    viol.append(V("decomposition-header-columns", row=r[:7], want=["smp", gene.name, i + 1, major, minors, j, a.minor]))
                    break

    # ------------------------------------------------------------------ VCF
    buf = io.StringIO()
    write_vcf("smp", gene, cov, sols, buf)
    lines = buf.getvalue().splitlines()
    hdr = [ln for ln in lines if ln.startswith("#CHROM")]
    body = [ln.split("\t") for ln in lines if ln and not ln.startswith("#")]
    if len(hdr) != 1:
        viol.append(V("vcf-header-line", n=len(hdr)))
    else:
        cols = hdr[0].split("\t")[9:]
        want_cols = [f"smp:{i}:{s.get_major_diplotype().replace(' ', '')}" for i, s in enumerate(sols)]
        if cols != want_cols:
            viol.append(V("vcf-sample-columns", got=cols, want=want_cols))
    lo, hi = gene._lookup_range
    G = "".join(gene[i] for i in range(lo, hi))
    recs = {}
    for r in body:
        if len(r) != 9 + len(sols):
            viol.append(V("vcf-column-count", got=len(r), want=9 + len(sols)))
            continue
        recs.setdefault((int(r[1]), r[2], r[3], r[4]), r)
    # map every record to a variant by haplotype
    every = sorted({m for cs in allcar for c in cs for m in c} | {tuple(m) for s in sols for a in s.solution for m in a.missing})
    hap = {}
    for m in every:
        try:
            hap[m] = refseq.apply_genome(G, m[0] - lo, m[1])
        except refseq.Mismatch:
            hap[m] = None
    rec_of = {}
    for key, r in recs.items():
        pos1, _id, ref, alt = key
        i = pos1 - 1 - lo
        cands = [m for m in every if (m[0] + 1 == pos1 or m[0] == pos1) and gene.get_rsid(m, default=False) == _id]
        target = None
        ok_shape = all(c in "ACGTN" for c in ref) and all(c in "ACGTN" for c in alt) and ref and alt
        if ok_shape and G[i:i + len(ref)] == ref:
            h = G[:i] + alt + G[i + len(ref):]
            for m in every:
                if hap[m] == h:
                    target = m
        def vpos(m):
            return m[0] if m[1].startswith("del") else m[0] + 1

        if target is None and any(hap[m] is None for m in every if vpos(m) == pos1):
            # the database itself is inconsistent here (toy gene: variant alleles do not match its reference): only
            # identify the record, do not judge REF/ALT
            byp = [m for m in every if vpos(m) == pos1 and gene.get_rsid(m, default=False) == _id]
            if len(byp) == 1:
                target = byp[0]
            labels.append("inconsistent-database-site")
        elif target is None:
            # malformed REF/ALT: identify the record by position + id + op kind to keep judging the genotype columns
            byp = [m for m in every if vpos(m) == pos1 or m[0] + 1 == pos1]
            kind = "snp" if byp and all(len(m[1]) == 3 for m in byp) else "indel-or-mnp"
            viol.append(V("vcf-ref-alt-does-not-spell-the-variant:" + ("ins" if any(m[1].startswith("ins") for m in byp) else
                                                                       "del" if any(m[1].startswith("del") for m in byp) else
                                                                       "mnp" if any(len(m[1]) > 3 for m in byp) else "snp"),
                          pos=pos1, ref=ref, alt=alt, variants=[f"{m[0]}.{m[1]}" for m in byp][:3]))
            if len(byp) == 1:
                target = byp[0]
        if target is not None:
            rec_of[target] = r
    d3 = d4 = False
    for m in every:
        E = [[m in c for c in cs] for cs in allcar]
        E4 = [[m in carried(gene, a, with_missing=False) for a in s.solution] for s in sols]
        E3 = [[any(j < len(s2.solution) and m in carried(gene, s2.solution[j], with_missing=False) for s2 in sols)
               for j in range(len(s.solution))] for s in sols]
        r = rec_of.get(m)
        if r is None:
            if any(any(x) for x in E):
                viol.append(V("vcf-record-missing-for-carried-variant", variant=f"{m[0]}.{m[1]}"))
            continue
        if r[0] != gene.chr:
            viol.append(V("vcf-chrom", got=r[0]))
        fmt = r[8].split(":")
        got = []
        ma, mi = [], []
        for i, s in enumerate(sols):
            f = dict(zip(fmt, r[9 + i].split(":")))
            gt = f.get("GT", "").replace("/", "|").split("|")
            got.append([x == "1" for x in gt])
            ma.append(f.get("MA", "").split(","))
            mi.append(f.get("MI", "").split(","))
            if len(gt) != len(s.solution):
                viol.append(V("vcf-gt-field-count", got=len(gt), want=len(s.solution)))
        if got == E:
            pass
        elif got == E4:
            d4 = True
        elif got == E3:
            d3 = True
            if E4 != E and E3 == E3:
                d4 = d4 or any(E4[i] != E[i] for i in range(len(sols)))
        else:
            viol.append(V("vcf-genotype-wrong", variant=f"{m[0]}.{m[1]}", got=got, want=E))
        # MA / MI name exactly the copies the GT marks
        for i, s in enumerate(sols):
            if len(got[i]) != len(s.solution):
                continue
            wm = [f"*{a.major}" if g else "-" for a, g in zip(s.solution, got[i])]
            wi = [f"*{a.minor}" if g else "-" for a, g in zip(s.solution, got[i])]
            if ma[i] != wm or mi[i] != wi:
                viol.append(V("vcf-ma-mi-fields", got=[ma[i], mi[i]], want=[wm, wi]))
                break
    if d3:
        viol.append(V("KF-D3:vcf-genotype-table-shared-by-all-solutions"))
    if d4:
        viol.append(V("KF-D4:vcf-lost-variants-shown-as-carried"))
    seen, uniq = set(), []
    for v in viol:
        if v["bucket"] not in seen:
            seen.add(v["bucket"])
            uniq.append(v)
    nontrivial = differ or "has-missing" in labels or bool(kinds & {"ins", "del", "mnp"})
    return Result(uniq, labels, nontrivial)


def strategy(tier):
    def for_gene(g):
        d = {"gene": st.just(g), "build": st.sampled_from(["hg19", "hg38"]), "seed": st.integers(0, 10 ** 6),
             "solutions": st.lists(st.lists(st.integers(0, 300), min_size=1, max_size=4), min_size=1, max_size=4)}
        if g == "gen":
            d["db"] = gen_db.db_specs(gaps=False, pseudo=True, force_sv=True, small=True, max_sites=8, max_alleles=7,
                                      kinds=["snp", "mnp", "ins", "del", "snp", "delins"])
        return st.fixed_dictionaries(d)

    return st.sampled_from(GENES).flatmap(for_gene)


def budget(tier):
    return {"examples": 1600 if tier == "quick" else 40000, "shards": 16}
