"""C13 - calls do not depend on genome build or gene strand."""
import collections
import glob
import hashlib
import os
import random

from hypothesis import strategies as st
from natsort import natsorted

from lib import gen_db, gen_sol, gen_evid, simreads, refmodels
from lib.runner import Result, V, scratch, REPO

ID = "C13"
ISOLATE = True
CASE_TIMEOUT = 120
RULE = ("table cases: gene (any of the 38 shipped databases, or a generated dual-build database whose builds use drawn - mostly opposite - "
        "strands, different offsets and alignment gaps) x planted alleles chosen by name x noisy evidence generated once in RefSeq terms "
        "(noise keyed by the RefSeq notation of each variant, region-depth vectors keyed by region name) and transported to hg19 and hg38 "
        "through each build's own catalogue; solve_cn_model, estimate_major and estimate_minor are run on both and compared in RefSeq terms. "
        "alignment cases: one planted sample simulated against each build's contig and genotyped with genotype(). Non-trivial = the builds "
        "differ in strand or alignment string, or (shipped) the table contains a non-reference allele; and >= 2 copies; distinct = case JSON")
ASSUMPTIONS = ["solver scores compared at 1e-4, minor scores at 2e-3 (documented tie-breaker is position-order dependent)",
               "variants not mapped in both builds are not used as evidence",
               "a different set of reported alleles at equal score is reported in its own bucket (tie_break_divergence)",
               "alignment layer: structures, alleles, added/lost variants and diplotypes are compared, not scores (read tiling is not strand-symmetric)"]
EXPLANATION = "metamorphic: run on build A <-> run on build B, results compared by allele names and RefSeq notation"


def h01(*parts):
    return int(hashlib.sha1("|".join(map(str, parts)).encode()).hexdigest()[:8], 16) / float(0xFFFFFFFF)


def rkey(gene, m):
    return gene.get_refseq(tuple(m))


def table_for(gene, sel, depth, seed, noisy, extra_keys, common):
    """Evidence table for `gene` (one build): counts depend only on RefSeq-level keys."""
    copies = [(a, {tuple(m) for m in gen_evid.carried(gene, a, mn)}) for a, mn in sel]
    raw = collections.defaultdict(dict)
    sites = [m for m in sorted(gene.mutations) if rkey(gene, m) in common]
    lo, hi = (0.7, 1.3) if noisy else (1.0, 1.0)
    for (p, o) in sites:
        k = rkey(gene, (p, o))
        car = sum(1 for _, ms in copies if (p, o) in ms) + (1 if k in extra_keys else 0)
        f = lo + (hi - lo) * h01(seed, "v", k)
        n = max(0, round(depth * car * f))
        if n:
            raw[p][o] = [(60, 60)] * n
    for p in sorted({p for p, _ in sites}):
        keys = sorted(rkey(gene, (pp, oo)) for (pp, oo) in sites if pp == p)
        e = 0
        for major, ms in copies:
            if not gene.has_coverage(major, p):
                continue
            if any(mp == p and not mo.startswith("ins") for mp, mo in ms):
                continue
            e += 1
        e -= sum(1 for (pp, oo) in sites if pp == p and rkey(gene, (pp, oo)) in extra_keys and not oo.startswith("ins"))
        f = lo + (hi - lo) * h01(seed, "r", keys[0])
        n = max(0, round(depth * max(0, e) * f))
        if n:
            raw[p]["_"] = [(60, 60)] * n
    return {p: dict(v) for p, v in raw.items()}


def stage_results(gene, sel, struct, depth, seed, noisy, extra_keys, common, gap, cn_noise, novel=()):
    from aldy.profile import Profile
    from aldy.solutions import CNSolution
    from aldy.cn import solve_cn_model
    from aldy.major import estimate_major
    from aldy.minor import estimate_minor
    from aldy.gene import CNConfigType

    prof = Profile("t")
    prof.gap = gap
    out = {}
    # structure stage on a region-depth vector keyed by region names
    if len(gene.cn_configs) > 1:
        cov = {}
        has_p = len(gene.regions) > 1
        for r in gene.unique_regions:
            g = sum(gene.cn_configs[c].cn[0].get(r, 0) for c in struct)
            p = sum(gene.cn_configs[c].cn[1].get(r, 0) - (1 if i >= 2 and gene.cn_configs[c].kind == CNConfigType.DEFAULT else 0)
                    for i, c in enumerate(struct)) if has_p else 0
            cov[r] = (max(0.0, round(g + cn_noise * (h01(seed, "cg", r) - 0.5), 2)), max(0.0, round(p + cn_noise * (h01(seed, "cp", r) - 0.5), 2)) if has_p else 0.0)
        sols = solve_cn_model(gene, prof, gene.cn_configs, 2 + len(struct), cov, "cbc")
        out["cn"] = sorted((tuple(sorted(s.solution.elements())), round(s.score, 4)) for s in sols)
    cn = CNSolution(gene, 0, struct)
    raw = table_for(gene, sel, depth, seed, noisy, extra_keys, common)
    # non-catalogue exonic substitutions (already expressed in this build's terms): one copy's worth of reads each
    for gp, gop in novel:
        if gp not in raw and cn.position_cn(gp) > 0:
            raw[gp] = {gop: [(60, 60)] * depth}
            if cn.position_cn(gp) > 1:
                raw[gp]["_"] = [(60, 60)] * (depth * (int(cn.position_cn(gp)) - 1))
    covo = gen_evid.coverage_of(gene, prof, raw)
    majors = estimate_major(gene, covo, cn, "cbc")
    out["major"] = sorted((tuple(sorted(a.major for a in s.solution.elements())), tuple(sorted(rkey(gene, m) for m in s.added)), round(s.score, 4)) for s in majors)
    keyed = sorted(majors, key=lambda s: (tuple(sorted(a.major for a in s.solution.elements())), tuple(sorted(rkey(gene, m) for m in s.added))))
    minors = estimate_minor(gene, covo, keyed[:2], "cbc", novel=bool(novel)) if majors else []
    out["_ctx"] = (gene, prof, raw, keyed[:2], cn, bool(novel))
    if novel:
        out["novel-effects"] = [(gene.get_refseq((gp, gop)), gene.get_functional((gp, gop))) for gp, gop in novel]
    out["minor"] = sorted((tuple(sorted((a.major, a.minor, tuple(sorted(rkey(gene, m) for m in a.added)), tuple(sorted(rkey(gene, m) for m in a.missing)))
                                        for a in s.solution)), round(s.score, 6), carried_multiset(gene, s)) for s in minors)
    return out


def carried_multiset(gene, s):
    c = collections.Counter()
    for a in s.solution:
        al = gene.alleles[a.major]
        for m in (set(al.func_muts) | set(al.minors[a.minor].neutral_muts) | set(a.added)) - set(a.missing):
            c[rkey(gene, m)] += 1
    return tuple(sorted(c.items()))


def _optimal(ctx, reported_best):
    """True / False: the best reported refinement score is / is not the exhaustive optimum for this build's table; None: not decidable
    (novel mode or enumeration too large)."""
    gene, prof, raw, majors, cn, novel = ctx
    if novel or not majors:
        return None
    pooled = set()
    for mj in majors:
        for a in mj.solution:
            pooled |= set(gene.alleles[a.major].func_muts)
            for mi in gene.alleles[a.major].minors.values():
                pooled |= set(mi.neutral_muts)
        pooled |= set(mj.added)
    pooled |= set(gene.random_mutations)
    lo = min(m.score for m in majors)
    best = None
    try:
        for mj in majors:
            mc = collections.Counter({a.major: n for a, n in mj.solution.items()})
            b, _, _ = refmodels.rmin(gene, prof, raw, mc, cn, extra_mutations=[tuple(m) for m in pooled], limit=100000)
            if b is not None:
                v = b[0] + mj.score - lo
                best = v if best is None else min(best, v)
    except OverflowError:
        return None
    if best is None:
        return None
    return abs(reported_best - best) <= 2e-3


def compare(a, b, viol, where):
    if a.get("cn") != b.get("cn"):
        sa, sb = a.get("cn") or [], b.get("cn") or []
        if [x[0] for x in sa] != [x[0] for x in sb] or any(abs(x[1] - y[1]) > 1e-4 for x, y in zip(sa, sb)):
            viol.append(V("structure-solutions-differ-between-builds", hg19=str(sa)[:300], hg38=str(sb)[:300], where=where))
    ma, mb = a["major"], b["major"]
    if [x[:2] for x in ma] != [x[:2] for x in mb]:
        viol.append(V("major-solutions-differ-between-builds", hg19=str(ma)[:300], hg38=str(mb)[:300], where=where))
    elif any(abs(x[2] - y[2]) > 1e-4 for x, y in zip(ma, mb)):
        viol.append(V("major-scores-differ-between-builds", hg19=str(ma)[:300], hg38=str(mb)[:300], where=where))
    na, nb = a["minor"], b["minor"]
    if len(na) != len(nb):
        viol.append(V("minor-solution-count-differs-between-builds", hg19=len(na), hg38=len(nb), where=where))
    elif [x[0] for x in na] != [x[0] for x in nb]:
        sa, sb = sorted(x[1] for x in na), sorted(x[1] for x in nb)
        same_score = all(abs(x - y) <= 2e-3 for x, y in zip(sa, sb))
        # recorded finding KF-TIE: among equal-score optima the solver's pick depends on the variable order (= genome coordinates):
        # matched only if the scores are equal, the major alleles are the same and every variant is carried by the same number of
        # copies - only the distribution of silent variants over the copies differs
        majors_a = sorted(tuple(sorted(al[0] for al in x[0])) for x in na)
        majors_b = sorted(tuple(sorted(al[0] for al in x[0])) for x in nb)
        redistribution = same_score and majors_a == majors_b and sorted(x[2] for x in na) == sorted(x[2] for x in nb)
        if redistribution:
            bk = "KF-TIE:equal-score-redistribution-of-variants-among-copies"
        elif same_score and majors_a == majors_b:
            # recorded finding KF-TIE2: two refinements of the same major call with DIFFERENT carried variants tie exactly (e.g. one
            # copy's worth of an insertion missing: keep it on both copies, error 1, or switch one copy to a minor without it and add
            # the other variant back, penalty 1); each build reports the one its solver run meets first.  Matched only if the
            # exhaustive enumerator confirms, for BOTH builds, that the reported score is the optimum of that build's table (or the
            # case cannot be enumerated); a reported refinement that is not optimal is a plain violation
            oa = _optimal(a["_ctx"], min(x[1] for x in na)) if "_ctx" in a else None
            ob = _optimal(b["_ctx"], min(x[1] for x in nb)) if "_ctx" in b else None
            if oa is False or ob is False:
                bk = "minor-solutions-differ-between-builds:reported-refinement-not-optimal"
            else:
                bk = "KF-TIE2:equal-score-optima-with-different-carried-variants" + ("" if oa and ob else ":not-enumerated")
        else:
            bk = "tie_break_divergence:minor-alleles-differ-at-equal-score" if same_score else "minor-solutions-differ-between-builds"
        viol.append(V(bk, hg19=str([x[:2] for x in na])[:400], hg38=str([x[:2] for x in nb])[:400], where=where))
    elif any(abs(x[1] - y[1]) > 2e-3 for x, y in zip(na, nb)):
        viol.append(V("minor-scores-differ-between-builds", hg19=[x[1] for x in na], hg38=[x[1] for x in nb], where=where))


def pick(gene, struct_idx, seed):
    rng = random.Random(seed)
    dele = gene.deletion_allele()
    confs = natsorted(c for c in gene.cn_configs if c != dele)
    by = {c: natsorted(a for a in gene.alleles if gene.alleles[a].cn_config == c) for c in confs}
    confs = [c for c in confs if by[c]]
    struct = [confs[i % len(confs)] if k else "1" for k, i in enumerate(struct_idx)]
    sel = []
    for c in struct:
        a = by[c][rng.randrange(len(by[c]))]
        mi = natsorted(gene.alleles[a].minors)
        sel.append((a, mi[rng.randrange(len(mi))]))
    return struct, sel


def run_table(case):
    if case["gene"] == "gen":
        g19 = gen_sol.generated(case["db"], "hg19", "c13a")
        g38 = gen_sol.generated(case["db"], "hg38", "c13b")
    else:
        g19 = gen_sol.shipped(case["gene"], "hg19")
        g38 = gen_sol.shipped(case["gene"], "hg38")
    struct, sel = pick(g19, case["struct"], case["seed"])
    labels = [f"gene:{case['gene']}" if case["gene"] in ("gen", "cyp2d6") else "gene:shipped", f"copies:{len(struct)}",
              f"strands:{g19.strand:+d}/{g38.strand:+d}", "noisy" if case["noisy"] else "exact"]
    # the same names must exist in the other build (C09 shows the catalogue is build independent)
    if any(a not in g38.alleles or mn not in g38.alleles[a].minors for a, mn in sel) or any(c not in g38.cn_configs for c in struct):
        return Result([V("planted-allele-missing-in-other-build", sel=sel)], labels, True)
    k19 = {rkey(g19, m) for m in g19.mutations}
    k38 = {rkey(g38, m) for m in g38.mutations}
    common = k19 & k38
    if len(common) < len(k19 | k38):
        labels.append("variants-not-in-both-builds")
    fk = sorted(k for k in common if any(rkey(g19, m) == k and g19.mutations[m][0] for m in g19.mutations))
    extra = {fk[j % len(fk)] for j in case["extra"]} if fk else set()
    res = []
    novel = {"hg19": [], "hg38": []}
    if case["gene"] == "gen" and case.get("novel"):
        from lib import truth

        _, meta = gen_db.build(case["db"])
        cat = {(s_[0], s_[1]) for s_ in meta["sites"]}
        ex = [i for a_, e_ in meta["exons"] for i in range(a_ - 1, e_ - 1) if i in meta["r2c"]["hg19"] and i in meta["r2c"]["hg38"]]
        for j, k in case["novel"]:
            if not ex:
                break
            r = ex[j % len(ex)]
            ref = meta["seq"][r]
            alt = [c for c in "ACGT" if c != ref][k % 3]
            if any(p_ == r + 1 for p_, _ in cat):
                continue
            gv = {b_: truth.genome_variant(meta, b_, case["db"]["builds"][b_]["strand"], (r + 1, f"{ref}>{alt}"))
                  for b_ in ("hg19", "hg38")}
            # the position must be free of catalogue sites in BOTH builds (an insertion's anchor base differs between strands)
            if any(gv[b_][0] in {p_ for p_, _ in g_.mutations} for b_, g_ in (("hg19", g19), ("hg38", g38))):
                continue
            for b_ in ("hg19", "hg38"):
                novel[b_].append(gv[b_])
        if novel["hg19"]:
            labels.append("non-catalogue-exonic-variant")
    for b_, g in (("hg19", g19), ("hg38", g38)):
        res.append(stage_results(g, sel, struct, case["depth"], case["seed"], case["noisy"], extra, common, case["gap"], case["cn_noise"] / 100.0,
                                 novel=novel[b_]))
    viol = []
    # the first and the last RefSeq base of every gene region lie in the same region in both builds
    for rn in g19.regions[0]:
        if rn in g38.regions[0]:
            ends = []
            for g_ in (g19, g38):
                rg_ = g_.regions[0][rn]
                if rg_.end <= rg_.start:
                    ends = None
                    break
                five, three = (rg_.start, rg_.end - 1) if g_.strand > 0 else (rg_.end - 1, rg_.start)
                ends.append((g_.region_at(five), g_.region_at(three)))
            if ends and ends[0] != ends[1]:
                viol.append(V("region-of-a-boundary-base-differs-between-builds", region=rn, hg19=str(ends[0]), hg38=str(ends[1]),
                              strands=[g19.strand, g38.strand]))
                break
    if res[0].get("novel-effects") != res[1].get("novel-effects"):
        viol.append(V("inferred-effect-of-non-catalogue-variant-differs-between-builds", hg19=str(res[0].get("novel-effects")), hg38=str(res[1].get("novel-effects"))))
    compare(res[0], res[1], viol, "table")
    differ = g19.strand != g38.strand or g19._yml["reference"]["mappings"]["hg19"][4] != g19._yml["reference"]["mappings"]["hg38"][4]
    nonref = any(gen_evid.carried(g19, a, mn) for a, mn in sel)
    nontrivial = len(struct) >= 2 and (differ if case["gene"] == "gen" else nonref)
    return Result(viol, labels, nontrivial)


def run_align(case):
    from aldy.gene import Gene
    from aldy.genotype import genotype
    from aldy.common import AldyException
    from props import C01

    d = scratch()
    db = os.path.join(d, "c13.yml")
    meta_ = gen_db.write(case["db"], db)
    out = {}
    GRangeOf = {}
    labels = ["alignment"]
    names = None
    for build in ("hg19", "hg38"):
        gene = Gene(db, genome=build)
        copies = C01.plan(gene, case)
        if copies is None:
            return Result([], ["inadmissible"], False)
        if names is None:
            names = [c[3] for c in copies]
        elif names != [c[3] for c in copies]:
            return Result([V("planted-alleles-resolve-differently-between-builds", hg19=names, hg38=[c[3] for c in copies])], labels, True)
        sim = simreads.Sim(gene, seed=case["sim_seed"])
        sim.mirror = True
        rl = case["rl"]
        step = max(1, rl // case["depth"])
        bam, pbam = os.path.join(d, f"s{build}.bam"), os.path.join(d, f"p{build}.bam")
        # reads from the database's RefSeq-level truth converted by the harness (lib/truth.py), not from the loaded variants
        from lib import truth

        simc = []
        for c, m, maj, nm in copies:
            tv = truth.allele_variants(case["db"], meta_, build, nm) if maj is not None else None
            simc.append((c, frozenset(tv) if tv is not None else m))
        sim.sample(bam, simc, rl, step)
        sim.sample(pbam, [("1", frozenset())] * 2, rl, step)
        labels.append(f"strand:{gene.strand:+d}")
        GRangeOf[build] = sim.cnr
        try:
            res = genotype(db, bam, pbam, output_file=None, cn_region=sim.cnr, genome=build, solver="cbc")
            sols = [s for v in res.values() for s in v]
            out[build] = sorted((s.get_major_diplotype(),
                                 tuple(sorted((a.major, a.minor, tuple(sorted(rkey(gene, m) for m in a.added)), tuple(sorted(rkey(gene, m) for m in a.missing))) for a in s.solution)),
                                 tuple(sorted(s.major_solution.cn_solution.solution.items())), round(s.score, 3), carried_multiset(gene, s)) for s in sols)
        except AldyException as e:
            out[build] = "error:" + str(e)[:60]
    viol = []
    a, b = out["hg19"], out["hg38"]
    # judged only if both builds call the planted structure: otherwise the alleles are fitted to a wrong copy number, thresholds
    # become borderline and a one-read depth difference between the two simulations flips them
    want = tuple(sorted(collections.Counter(c for c, _, maj, _ in copies if maj is not None).items()))
    if any(isinstance(x, str) or any(s[2] != want for s in x) for x in (a, b)):
        return Result([], labels + ["planted-structure-not-called"], False)
    if a != b and not isinstance(a, str) and not isinstance(b, str) and [x[:3] for x in a] != [x[:3] for x in b]:
        # recorded finding KF-MNPKEY: the phase record files a multi-nucleotide substitution under its LEFTMOST GENOME base; a read
        # that covers only part of the substitution's footprint says "reference here" for it only if that one base is the covered
        # one - which is the other RefSeq base on the opposite strand.  Mirror-image reads therefore link (or fail to link) the
        # substitution to a neighbouring site differently in the two builds, and one build resolves a cis/trans ambiguity the other
        # reports as two tied solutions.  Attributed by counter-factual: without the reads that cover a catalogued multi-nucleotide
        # substitution only partly, both builds must give the same solutions
        import pysam

        out2 = {}
        for build in ("hg19", "hg38"):
            gene = Gene(db, genome=build)
            mnps = [(p_, p_ + len(o_.split(">")[0])) for p_, o_ in gene.mutations if ">" in o_ and len(o_.split(">")[0]) > 1]
            if not mnps:
                out2 = None
                break
            src, dst = os.path.join(d, f"s{build}.bam"), os.path.join(d, f"f{build}.bam")
            with pysam.AlignmentFile(src) as fi, pysam.AlignmentFile(dst, "wb", header=fi.header) as fo:
                for r_ in fi:
                    s_, e_ = r_.reference_start, r_.reference_end
                    if any(s_ < hi_ and lo_ < e_ and not (s_ <= lo_ and hi_ <= e_) for lo_, hi_ in mnps):
                        continue
                    fo.write(r_)
            pysam.index(dst)
            try:
                res2 = genotype(db, dst, os.path.join(d, f"p{build}.bam"), output_file=None, cn_region=GRangeOf[build], genome=build, solver="cbc")
                out2[build] = sorted((s.get_major_diplotype(), tuple(sorted((x.major, x.minor) for x in s.solution))) for v in res2.values() for s in v)
            except AldyException as e:
                out2[build] = "error:" + str(e)[:60]
        if out2 and out2["hg19"] == out2["hg38"] and not isinstance(out2["hg19"], str):
            return Result([V("KF-MNPKEY:partly-covered-multi-nucleotide-substitution-links-differently-on-the-two-strands",
                             hg19=str([x[:1] for x in a])[:200], hg38=str([x[:1] for x in b])[:200], planted=names)], labels + ["kf-mnpkey"], True)
    if a != b:
        if isinstance(a, str) or isinstance(b, str) or [x[:3] for x in a] != [x[:3] for x in b]:
            redistribution = not isinstance(a, str) and not isinstance(b, str) and [(x[0], x[2], x[4]) for x in a] == [(x[0], x[2], x[4]) for x in b]
            viol.append(V("KF-TIE:equal-score-redistribution-of-variants-among-copies" if redistribution else "genotype-differs-between-builds",
                          hg19=str([x[:4] for x in a] if not isinstance(a, str) else a)[:400], hg38=str([x[:4] for x in b] if not isinstance(b, str) else b)[:400], planted=names))
        # scores are not compared at this layer: the simulator tiles reads from the genomic left end of each segment, so the
        # per-site depths of the two builds differ by a read or two (the evidence is equivalent, not identical)
    return Result(viol, labels, True)


def run_case(case):
    if case["kind"] == "table":
        return run_table(case)
    return run_align(case)


def strategy(tier):
    genes = sorted(os.path.basename(p)[:-4] for p in glob.glob(os.path.join(REPO, "aldy", "resources", "genes", "*.yml")))
    small = [g for g in genes if g not in ("cyp2d6", "dpyd", "ryr1")]

    def table_for_gene(g):
        d = {"kind": st.just("table"), "gene": st.just(g), "struct": st.lists(st.integers(0, 9), min_size=1, max_size=3),
             "depth": st.sampled_from([10, 20]), "noisy": st.booleans(), "extra": st.lists(st.integers(0, 30), max_size=1),
             "gap": st.sampled_from([0, 0.1]), "cn_noise": st.sampled_from([0, 30, 60]), "seed": st.integers(0, 10 ** 6)}
        if g == "gen":
            d["novel"] = st.sampled_from([0, 1]).flatmap(
                lambda n: st.lists(st.tuples(st.integers(0, 400), st.integers(0, 2)).map(list), min_size=n, max_size=2 * n))
            d["db"] = st.one_of(gen_db.db_specs(gaps=True, pseudo=True, force_sv=True, small=True, max_sites=6, max_alleles=6, dual_opposite=True,
                                                kinds=gen_db.KINDS_ALL),
                                gen_db.db_specs(gaps=True, small=True, max_sites=6, max_alleles=6, kinds=gen_db.KINDS_ALL))
        return st.fixed_dictionaries(d)

    table = st.sampled_from(["gen"] * 25 + small * 1 + ["cyp2d6"]).flatmap(table_for_gene)
    align = st.fixed_dictionaries({
        "kind": st.just("align"), "db": gen_db.db_specs(dual_opposite=True, gaps=False, edge=True),
        "hap": st.lists(st.tuples(st.integers(0, 5), st.integers(0, 40)).map(list), min_size=2, max_size=2),
        "extra": st.lists(st.integers(0, 40), max_size=1), "rl": st.sampled_from([50, 100, 150]), "depth": st.sampled_from([20, 25]),
        "sim_seed": st.integers(0, 10 ** 6)})
    return st.one_of(table, table, table, table, align)


def budget(tier):
    return {"examples": 480 if tier == "quick" else 9000, "shards": 16}
