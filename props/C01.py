"""C01 - error-free reads from a catalogued genotype are called as that genotype."""
import collections
import os

from hypothesis import strategies as st
from natsort import natsorted

from lib import gen_db, simreads, refmodels, record, truth
from lib.runner import Result, V, scratch

ID = "C01"
ISOLATE = True  # end-to-end solver calls: run every case in a killable child
RULE = ("case = generated database spec (strand, pseudogene, alignment gaps, variant kinds) x build x two haplotype picks "
        "(any catalogued minor allele incl. fusion partials, or the whole-gene deletion) x 0-2 extra default-structure copies "
        "x read length x per-copy depth; reads are simulated error-free and genotype() is called on the BAM with a profile BAM "
        "simulated from *1/*1; non-trivial = at least one planted copy carries a variant or a non-default structure, and the "
        "case digest (database + sample) is new")
ASSUMPTIONS = [
    "reads carry the variants of the database's RefSeq-level description converted to genome coordinates by the harness' own code (lib/truth.py), not the variants as aldy loaded them",
    "the simulator is a perfect aligner with exactly uniform depth (rl/step per copy); first two copies are complete haplotypes, extra copies gene-only (aldy's documented structure model)",
    "clauses 2-3 are judged only when the planted structure is among the reference enumerator's optimal structures for the measured region depths (the property's own condition)",
    "solver = CBC",
]
EXPLANATION = "end-to-end planted-genotype search; oracle = planted multiset among best solutions + variant-multiset equality in every best solution"

DEL = "<DEL>"


def kinds_of(ms):
    ks = set()
    for m in ms:
        op = m[1]
        if op.startswith("ins"):
            ks.add("ins")
        elif op.startswith("del"):
            ks.add("del")
        elif len(op) > 3:
            ks.add("mnp")
        else:
            ks.add("snp")
    return ks


def plan(gene, case):
    """-> list of (conf, muts, major|None) ordered complete-first, or None if the picks are inadmissible."""
    dele = gene.deletion_allele()
    allm = natsorted(mn for a in gene.alleles.values() for mn in a.minors if a.cn_config != dele)
    dflt = natsorted(mn for a in gene.alleles.values() if a.cn_config == "1" for mn in a.minors)
    from aldy.gene import CNConfigType as T

    def of_kind(k):
        return natsorted(mn for a in gene.alleles.values() if gene.cn_configs[a.cn_config].kind == k for mn in a.minors)

    cats = {0: list(allm) + ([DEL] if dele else []), 1: list(allm), 2: [DEL] if dele else [], 3: of_kind(T.LEFT_FUSION),
            4: of_kind(T.RIGHT_FUSION), 5: [m for m in dflt if not m.endswith(".001")] or dflt}
    if not gene.do_copy_number:
        cats = {k: dflt for k in cats}
    hap = []
    for h in case["hap"]:
        cat, i = (0, h) if isinstance(h, int) else h
        o = cats[cat % 6] or cats[0]
        hap.append(o[i % len(o)])
    extra = [dflt[i % len(dflt)] for i in case["extra"]] if gene.do_copy_number else []
    if hap.count(DEL) == 2:
        extra = []
        if len(gene.regions) < 2:
            plan.reason = "deldel-without-pseudogene"
            return None  # no read anywhere in the locus: C19's domain (must be rejected), not C01's
    copies = []
    for nm in hap + extra:
        if nm == DEL:
            copies.append((dele, frozenset(), None, DEL))
        else:
            c, m, maj = simreads.allele_copy(gene, nm)
            copies.append((c, frozenset(m), maj, nm))
    if any(op.startswith("del") and "ins" in op[3:] for _, ms, _, _ in copies for _, op in ms):
        # a planted allele carries a deletion-insertion: the statement's variant kinds are SNPs, insertions and deletions, and the read
        # parser has no notion of a combined del-ins observation (the simulator does not produce one either)
        plan.reason = "delins-variant"
        return None
    ncomplete = 2
    complete, rest = copies[:ncomplete], copies[ncomplete:]
    return complete + rest


def run_case(case):
    if case.get("kind") == "shipped":
        return run_shipped(case)
    return _run_generated(case)


def _run_generated(case):
    from aldy.gene import Gene
    from aldy.genotype import genotype
    from aldy.common import AldyException
    from aldy.profile import Profile

    d = scratch()
    db = os.path.join(d, "ga.yml")
    meta_ = None
    if case.get("kind") == "shipped":
        import shutil

        shutil.copyfile(_shipped_db(case["gene"]), db)
    else:
        meta_ = gen_db.write(case["db"], db)
    build = case["build"]
    gene = Gene(db, genome=build)
    copies = plan(gene, case)
    if copies is None:
        return Result([], ["inadmissible:" + getattr(plan, "reason", "deldel-without-pseudogene")], False)
    sim = simreads.Sim(gene, seed=case["sim_seed"])
    rl = case["rl"]
    step = max(1, rl // case["depth"])
    bam, pbam = os.path.join(d, "s.bam"), os.path.join(d, "p.bam")
    # reads are simulated from the database's RefSeq-level truth (own coordinate conversion), not from the variants as aldy
    # loaded them; for shipped genes (no spec) the loaded variants are used
    sim_copies = []
    truth_differs = False
    for c, m, maj, nm in copies:
        tv = None
        if meta_ is not None and nm != DEL:
            tv = truth.allele_variants(case["db"], meta_, build, nm)
        if tv is not None:
            if {tuple(x) for x in m} != tv:
                truth_differs = True
            sim_copies.append((c, frozenset(tv)))
        else:
            sim_copies.append((c, m))
    sim.sample(bam, sim_copies, rl, step)
    sim.sample(pbam, [("1", frozenset())] * 2, rl, step)

    planted_major = collections.Counter(maj for _, _, maj, _ in copies if maj is not None)
    planted_vars = collections.Counter(m for _, ms, maj, _ in copies if maj is not None for m in ms)
    struct = tuple(sorted(c for c, _, maj, _ in copies if maj is not None))
    allv = set(planted_vars)
    labels = [f"strand:{gene.strand:+d}", f"copies:{len(struct)}", f"pseudo:{len(gene.regions) - 1}",
              "gaps" if case["db"]["builds"][build].get("gap") else "nogaps", f"rl:{rl}"]
    if case.get("kind") == "shipped":
        labels.append("shipped:" + case["gene"])
    labels += [f"var:{k}" for k in kinds_of(allv)]
    from aldy.gene import CNConfigType
    skinds = set()
    for c, _, maj, nm in copies:
        if nm == DEL:
            skinds.add("deletion")
        else:
            skinds.add({CNConfigType.DEFAULT: "default", CNConfigType.LEFT_FUSION: "left", CNConfigType.RIGHT_FUSION: "right",
                        CNConfigType.CUSTOM: "custom", CNConfigType.DELETION: "deletion"}[gene.cn_configs[c].kind])
    if len(struct) > 2:
        skinds.add("dup")
    labels += [f"sv:{k}" for k in skinds]
    if truth_differs:
        labels.append("loaded-variants-differ-from-database-truth")
    if meta_ is not None and case["db"].get("edge") and any(m[0] in (min(gene.chr_to_ref), max(gene.chr_to_ref)) for m in allv):
        labels.append("variant-at-an-end-of-the-mapped-span")
    if any(sum(1 for m in ms if m[1].startswith("ins")) > 1 for _, ms, maj, _ in copies if maj is not None):
        labels.append("copy-with-two-insertions")
    nontrivial = bool(allv) or skinds != {"default"}
    names = [nm for _, _, _, nm in copies]
    info = {"planted": names, "structure": struct}

    def attempt(reference):
        viol = []
        with record.stages() as rec:
            try:
                res = genotype(db, bam, pbam, output_file=None, cn_region=sim.cnr, genome=build, solver="cbc",
                               reference=reference, **case.get("params", {}))
            except AldyException as e:
                viol.append(V("aldy-exception:" + str(e)[:40], planted=names, message=str(e)[:300]))
                return viol, "exception"
        sols = [s for v in res.values() for s in v]
        best, opt = None, None
        # clause 1: is the planted structure an optimal explanation of the measured region depths?
        if rec["cn_model"]:
            cm = rec["cn_model"][0]
            prof = sols[0].profile if sols else Profile("x")
            best, _, _ = refmodels.rcn(gene, prof, cm["max_cn"], cm["region_cov"], cm["fusion_support"], cm["configs"])
            opt = min(v[0] for v in best.values()) if best else None
            if struct not in best or best[struct][0] > opt + 1e-6:
                info["cn"] = {"planted": struct, "planted_score": best.get(struct, (None,))[0], "opt": opt,
                              "argmin": [k for k, v in best.items() if v[0] <= opt + 1e-6][:3]}
                return [], "structure_not_optimal"
        if not sols:
            viol.append(V("no-solution", planted=names))
            return viol, "nosol"
        # clause 2: planted major multiset among the best solutions
        reported = [collections.Counter(a.major for a in s.solution) for s in sols]
        if planted_major not in reported:
            viol.append(V("planted-majors-not-reported:" + "+".join(sorted(kinds_of(allv))) + ":" + "+".join(sorted(skinds)),
                          planted=names, planted_major=dict(planted_major), reported=[dict(r) for r in reported],
                          diplotypes=[s.get_minor_diplotype() for s in sols]))
        # clause 3: every best solution carries exactly the planted variants (with multiplicity)
        for s in sols:
            car = collections.Counter()
            for a in s.solution:
                al = gene.alleles[a.major]
                ms = (set(al.func_muts) | set(al.minors[a.minor].neutral_muts) | set(a.added)) - set(a.missing)
                for m in ms:
                    car[m] += 1
            if car != planted_vars:
                lost = planted_vars - car
                added = car - planted_vars
                s_struct = tuple(sorted(s.major_solution.cn_solution.solution.elements()))
                if (best and s_struct != struct and s_struct in best and best[s_struct][0] <= opt + 1e-6 and planted_major in reported
                        and s.score <= min(x.score for x in sols) + 1e-6):
                    # recorded finding KF-STRUCTTIE: ANOTHER structure explains the region depths exactly as well as the planted one
                    # (independent enumerator), the planted combination is reported too, and this best solution is fitted to the
                    # other structure - site counts are normalised by the site's own total, so a variant present on every copy fits
                    # any copy number there and the alleles of the other structure carry fewer / other variants at zero error
                    viol.append(V("KF-STRUCTTIE:best-solution-under-a-tied-other-structure-carries-other-variants", planted=names,
                                  planted_structure=struct, other_structure=s_struct, diplotype=s.get_minor_diplotype(),
                                  lost=[str(m) for m in lost.elements()][:6], added=[str(m) for m in added.elements()][:6]))
                    continue
                dk = kinds_of(list(lost) + list(added))
                regs = sorted({(gene.region_at(m[0]) or (0, "?"))[1][:1] for m in list(lost) + list(added)})
                viol.append(V("variant-multiset:" + ("lost" if lost else "") + ("added" if added else "") + ":" + "+".join(sorted(dk)),
                              planted=names, lost=[str(m) for m in lost.elements()], added=[str(m) for m in added.elements()],
                              regions=regs, diplotype=s.get_minor_diplotype(), score=s.score))
                break
        return viol, f"nsol:{min(len(sols), 4)}"

    viol, tag = attempt(None)
    labels.append(tag)
    if tag == "structure_not_optimal":
        return Result([], labels, False, info=info)
    # Known finding KF1: the temporary reference aldy hands to indel realignment has N at genome-only positions of
    # the RefSeq alignment; reads covering such a position can be counted for/against a catalogued indel nearby.
    # Attributed by counter-factual: the same run with the true contig sequence as `reference` must satisfy the
    # property, the database must have a genome-only alignment gap and an indel must be catalogued.
    gap_d = " D" in (" " + gene._yml["reference"]["mappings"][build][4])
    has_indel = any(op[:3] in ("ins", "del") for _, op in gene.mutations)
    if viol and gap_d and has_indel:
        fa = os.path.join(d, "contig.fa")
        with open(fa, "w") as f:
            f.write(f">{gene.chr}\n{sim.genome}\n")
        import pysam

        pysam.faidx(fa)
        viol2, tag2 = attempt(fa)
        if not viol2 and tag2.startswith("nsol"):
            viol = [V("KF1:indel-realignment-reference-has-N-at-alignment-gap", original=[v["bucket"] for v in viol], planted=names)]
            labels.append("kf1")
    # Known finding KF2: the vendored indelpost library itself miscounts the reads supporting a catalogued indel
    # (seen: error-free reads carrying a SNP 25 bp away are all counted as carrying an insertion).  Attributed only
    # if (a) the harness' own call of indelpost for that variant (anchored by the harness from the loaded variant,
    # not by aldy's code) disagrees with the number of reads that really carry the indel, and (b) aldy's table holds
    # exactly indelpost's answer, i.e. aldy passed the library's answer on faithfully.
    if viol and has_indel and "kf1" not in labels:
        try:
            bad = _indelpost_miscounts(gene, bam, d)
        except Exception as e:  # noqa
            bad = None
            labels.append("kf2-probe-failed:" + type(e).__name__)
        if bad:
            from aldy.sam import Sample

            smp = Sample(gene, Profile("x", cn_solution=["1", "1"]), bam)
            if all(tuple(smp._indel_sites.get(k, (None, None))) == tuple(v["indelpost"]) for k, v in bad.items()):
                viol = [V("KF2:indelpost-miscounts-indel-support", original=[v["bucket"] for v in viol], planted=names,
                          sites={f"{k[0]}.{k[1]}": v for k, v in bad.items()})]
                labels.append("kf2")
    return Result(viol, labels, nontrivial, info=info)


def _indelpost_miscounts(gene, bam, d):
    """{(pos, op): {"truth": n_reads_with_that_indel, "indelpost": (off, on)}} for catalogued insertions/deletions
    whose on-target count from a direct indelpost call differs from the number of reads whose CIGAR has it."""
    import pysam
    from aldy.indelpost import Variant, VariantAlignment

    fa = os.path.join(d, "kf2ref.fa")
    with pysam.AlignmentFile(bam) as sam:
        sz = sam.get_reference_length(gene.chr)
        lo, hi = gene._lookup_range
        with open(fa, "w") as f:
            f.write(f">{gene.chr}\n" + "N" * lo + "".join(gene[i] for i in range(lo, hi)) + "N" * (sz - hi) + "\n")
        pysam.faidx(fa)
        ref = pysam.FastaFile(fa)
        out = {}
        for (pos, op) in gene.mutations:
            if op[:3] not in ("ins", "del") or "ins" in op[3:]:
                continue
            truth = 0
            for r in sam.fetch(gene.chr, max(0, pos - 1), pos + 2):
                p = r.reference_start
                q = 0
                for o, n in r.cigartuples:
                    if o == 0:
                        p += n
                        q += n
                    elif o == 1:
                        if op.startswith("ins") and p - 1 == pos and r.query_sequence[q:q + n] == op[3:]:
                            truth += 1
                        q += n
                    elif o == 2:
                        if op.startswith("del") and p == pos and n == len(op) - 3:
                            truth += 1
                        p += n
            if op.startswith("ins"):
                v = Variant(gene.chr, pos + 1, gene[pos], gene[pos] + op[3:], ref)
            else:
                v = Variant(gene.chr, pos, gene[pos - 1] + op[3:], gene[pos - 1], ref)
            va = VariantAlignment(v, sam, mapping_quality_threshold=10, base_quality_threshold=10, exact_match_for_shiftable=True)
            off, on = va.count_alleles()
            if on != truth:
                out[(pos, op)] = {"truth": truth, "indelpost": (off, on)}
    return out


def case_strategy(db_kwargs=None):
    dbs = gen_db.db_specs(**dict({"echo": True, "edge": True}, **(db_kwargs or {})))
    return st.fixed_dictionaries({
        "db": dbs,
        "build": st.sampled_from(["hg19", "hg38"]),
        "hap": st.lists(st.tuples(st.integers(0, 5), st.integers(0, 40)).map(list), min_size=2, max_size=2),
        "extra": st.lists(st.integers(0, 40), min_size=0, max_size=2),
        "rl": st.sampled_from([50, 75, 100, 150, 250]),
        "depth": st.sampled_from([20, 25, 30]),
        "sim_seed": st.integers(0, 10 ** 6),
    })


def strategy(tier):
    shipped = st.fixed_dictionaries({
        "kind": st.just("shipped"), "gene": st.sampled_from(SHIPPED_QUICK if tier == "quick" else SHIPPED_SMALL), "build": st.sampled_from(["hg19", "hg38"]),
        "hap": st.lists(st.tuples(st.integers(0, 5), st.integers(0, 400)).map(list), min_size=2, max_size=2),
        "extra": st.lists(st.integers(0, 400), min_size=0, max_size=1),
        "rl": st.sampled_from([100, 150, 250]), "depth": st.sampled_from([20, 25]), "sim_seed": st.integers(0, 10 ** 6)})
    n = 16 if tier == "quick" else 6
    gen = case_strategy()
    return st.integers(0, n - 1).flatmap(lambda k: shipped if k == 0 else gen)


def budget(tier):
    return {"examples": 1024 if tier == "quick" else 16000, "shards": 16}


# ------------------------------------------------------------------ shipped small genes on their real coordinates
SHIPPED_QUICK = ["nat2", "comt", "vkorc1", "ifnl3", "cyp2w1", "nudt15", "cyp2r1"]
SHIPPED_SMALL = ["cyp2w1", "cyp2r1", "cyp4f2", "nat2", "comt", "vkorc1", "ifnl3", "cyp2a6", "nudt15", "cyp2c19", "tpmt", "cyp2d6"]
_shipped = {}


def _shipped_db(name):
    from aldy.common import script_path

    return script_path(f"aldy.resources.genes/{name}.yml")


def run_shipped(case):
    """Same oracle as the generated part, database = a shipped gene at its real coordinates (lazy contig)."""
    return _run_generated(dict(case, db={"builds": {"hg19": {"gap": None}, "hg38": {"gap": None}}}))
