"""C11 - the diplotype is a faithful arrangement of the called alleles."""
import collections
import itertools
import random
import re

from hypothesis import strategies as st

from lib import gen_db, gen_sol
from lib.runner import Result, V

ID = "C11"
RULE = ("case = gene (toy, CYP2D6, CYP2A6, CYP2C19, GSTM1 or a generated catalogue with drawn tandem rules) x multiset of 0-6 major alleles "
        "(fusion partials included) with random minors and added core/silent variants; every permutation of the copy order for <= 4 "
        "copies, 24 drawn permutations above; non-trivial = >= 3 copies, or an applicable tandem rule, or a fused / novel name is rendered; "
        "distinct = case JSON")
ASSUMPTIONS = [
    "a tandem rule is judged only when neither of its two alleles also belongs to another applicable rule (competing rules: at least one honoured)",
    "within a haplotype natural order is judged with a tandem partner riding along with its leading allele",
    "rendered names are judged with display_format off (the documented default)",
]
EXPLANATION = "direct generation of solutions, all permutations; partition / naming / tandem / order / permutation-independence predicates"

GENES = ["toy", "cyp2d6", "cyp2a6", "cyp2c19", "gstm1", "gen"]


def natkey(s):
    return [int(c) if c.isdigit() else c for c in re.split(r"(\d+)", s)]


def group(major):
    n = str(major).split("#")[0]
    comp = re.split(r"(\d+)", n)
    return comp[0] if comp[0] != "" else comp[1]


def expected_name(gene, a):
    n = [str(a.major).split("#")[0]]
    for m in sorted(a.added):
        if tuple(m) in gene.mutations and gene.mutations[tuple(m)][0]:
            rs = gene.mutations[tuple(m)][1]
            n.append(rs if rs != "-" else f"{m.pos + 1}.{m.op}")
    return "+".join(n)


def check_one(gene, sol, viol, labels):
    from aldy.diplotype import estimate_diplotype

    n = len(sol.solution)
    dele = gene.deletion_allele()
    d = estimate_diplotype(gene, sol)
    if sol.diplotype is not d and list(map(list, sol.diplotype)) != list(map(list, d)):
        viol.append(V("returned-diplotype-differs-from-attribute"))
    flat = [i for h in d for i in h]
    idx = sorted(i for i in flat if i != -1)
    if idx != list(range(n)):
        viol.append(V("not-a-partition", diplotype=[list(h) for h in d], n=n))
        return None
    ndel = flat.count(-1)
    want_del = max(0, 2 - n) if dele else 0
    if ndel != want_del:
        viol.append(V("deletion-placeholders", got=ndel, want=want_del, has_deletion_allele=bool(dele), n=n))
        if not dele:
            return None  # nothing to render for a placeholder of a gene without deletion allele
    if n >= 2 and (not d[0] or not d[1]):
        viol.append(V("empty-haplotype", diplotype=[list(h) for h in d], n=n))
    # rendered names
    s = sol.get_major_diplotype()
    if not sol.profile.display_format:
        haps = [h for h in s.split(" / ")] if s else []
        toks = [[t for t in h.split(" + ")] for h in haps]
        exp = [[("*" + (expected_name(gene, sol.solution[i]) if i != -1 else dele)) for i in h] for h in d if h]
        if toks != exp:
            viol.append(V("rendered-names", got=s, want=exp))
    # tandems
    names = [[(sol.solution[i].major if i != -1 else dele) for i in h] for h in d]
    groups = [[group(x) for x in h] for h in names]
    cnt = collections.Counter(g for h in groups for g in h)
    if n > 2 and gene.common_tandems:
        appl = [(a, b) for a, b in gene.common_tandems if cnt[a] and cnt[b] and a != b]
        for a, b in appl:
            others = [r for r in appl if r != (a, b) and (a in r or b in r)]
            if others:
                labels.append("competing-tandems")
                continue
            labels.append("tandem-applies")
            need = min(cnt[a], cnt[b])
            have = 0
            for h in groups:
                i = 0
                while i < len(h) - 1:
                    if h[i] == a and h[i + 1] == b:
                        have += 1
                        i += 2
                    else:
                        i += 1
            if have < need:
                viol.append(V("tandem-not-adjacent", rule=[a, b], need=need, have=have, diplotype=s))
        if len(appl) > 1 and not any("tandem-applies" == x for x in labels):
            # competing rules: at least one of them is honoured
            ok = any(h[i] == a and h[i + 1] == b for a, b in appl for h in groups for i in range(len(h) - 1))
            if not ok:
                viol.append(V("no-competing-tandem-honoured", rules=appl, diplotype=s))
    # natural order
    rendered = [[(sol.get_major_name(i)) for i in h] for h in d]
    rules = set(gene.common_tandems) if n > 2 else set()
    for h, gh in zip(rendered, groups):
        if not _pairs_ok(h, gh, rules):
            viol.append(V("haplotype-not-in-natural-order", haplotype=h, diplotype=s))
    if d[0] and d[1] and [natkey(x) for x in rendered[0]] > [natkey(x) for x in rendered[1]]:
        viol.append(V("haplotypes-not-in-natural-order", diplotype=s))
    return s


def _pairs_ok(h, gh, rules):
    """Is there a way to mark non-overlapping (a, b) rule pairs so that the remaining leaders are naturally ordered?"""
    n = len(h)

    def rec(i, last):
        if i >= n:
            return True
        if last is not None and natkey(h[i]) < natkey(last):
            return False
        if i + 1 < n and (gh[i], gh[i + 1]) in rules and rec(i + 2, h[i]):
            return True
        return rec(i + 1, h[i])

    return rec(0, None)


_gen_cache = {}


def run_case(case):
    if case["gene"] == "gen":
        gene = gen_sol.generated(case["db"], case["build"], "c11")
    else:
        gene = gen_sol.shipped(case["gene"], case["build"])
    picks = case["picks"]
    n = len(picks)
    base = gen_sol.make_solution(gene, picks, case["seed"], display_format=case["display"], with_deletion=case.get("with_deletion", False))
    # bias: when asked, make the first pick the deletion allele itself
    if case.get("with_deletion") and gene.deletion_allele() and base.solution and case["seed"] % 2 == 0:
        from aldy.solutions import SolvedAllele

        da = gene.deletion_allele()
        base.solution[0] = SolvedAllele(gene, da, sorted(gene.alleles[da].minors)[0], [], [])
    labels = [f"gene:{case['gene']}", f"n:{n}"]
    viol = []
    if any(a.major == gene.deletion_allele() for a in base.solution):
        labels.append("deletion-allele-called")
    if any("#" in a.major for a in base.solution):
        labels.append("fused-name")
    if any(tuple(m) in gene.mutations and gene.mutations[tuple(m)][0] for a in base.solution for m in a.added):
        labels.append("novel-name")
    if n <= 4:
        perms = list(itertools.permutations(range(n)))
    else:
        rng = random.Random(case["seed"])
        perms = [tuple(rng.sample(range(n), n)) for _ in range(24)]
    strings = set()
    from aldy.solutions import MinorSolution

    for p in perms:
        sol = MinorSolution(base.score, [base.solution[i] for i in p], base.major_solution, base.profile)
        before = len(viol)
        s = check_one(gene, sol, viol, labels)
        if len(viol) > before:
            break
        strings.add(s)
    if n <= 2 and len(strings) > 1:
        viol.append(V("order-dependent-for-two-copies", strings=sorted(map(str, strings))))
    nontrivial = n >= 3 or "tandem-applies" in labels or "fused-name" in labels or "novel-name" in labels
    return Result(viol, sorted(set(labels)), nontrivial)


def strategy(tier):
    base = {
        "build": st.sampled_from(["hg19", "hg38"]),
        "picks": st.sampled_from([0, 1, 2, 2, 3, 3, 4, 4, 5, 6]).flatmap(lambda n: st.lists(st.integers(0, 400), min_size=n, max_size=n)),
        "seed": st.integers(0, 10 ** 6),
        "display": st.sampled_from([False, False, False, True]),
        "with_deletion": st.booleans(),
    }
    dbs = gen_db.db_specs(gaps=False, pseudo=True, force_sv=True, small=True, max_sites=5, max_alleles=5).map(
        lambda s: dict(s, tandems=s.get("tandems") or [[0, 1], [2, 1]]))

    def for_gene(g):
        d = dict(base, gene=st.just(g))
        if g == "gen":
            d["db"] = dbs
        return st.fixed_dictionaries(d)

    return st.sampled_from(GENES).flatmap(for_gene)


def budget(tier):
    return {"examples": 4000 if tier == "quick" else 120000, "shards": 16}
