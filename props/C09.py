"""C09 - the star-allele catalogue is a consistent, build-independent partition."""
import collections
import glob
import os

import yaml
from hypothesis import strategies as st

from lib import gen_db, refseq
from lib.runner import Result, V, scratch, REPO

ID = "C09"
RULE = ("exhaustive part: the 38 shipped databases, both builds (one case per database); generated part: catalogue-stress databases "
        "(duplicate variant sets, name-prefix collisions, labels, left fusions with and without own core variants, right fusions, custom "
        "partial deletions, whole-gene deletion, zero-length region, opposite strands / alignment gaps between builds); non-trivial = the "
        "catalogue has two database alleles merged into one major, a renamed major, a fusion partial or a removed duplicate; distinct = "
        "database digest")
ASSUMPTIONS = [
    "an independent reader of the raw YAML (yaml.safe_load, own alignment/region arithmetic) supplies structure signature and core/silent sets",
    "variants whose footprint is not entirely inside the mapped RefSeq part of a build are not judged for that build",
    "a variant annotated inconsistently (with and without a function) across a file is counted and the file's partition clause is skipped",
    "build independence of configuration vectors is judged over regions of non-zero length in both builds",
]
EXPLANATION = "independent re-grouping of the raw YAML vs Gene.alleles / cn_configs / removed, partial-allele derivation, hg19-vs-hg38 diff"


def read_db(yml, build):
    """Independent reading: -> dict(alleles={name: (sig, core frozenset, silent frozenset)}, order=[regions 5'->3'], ...)"""
    name = yml["name"]
    pseudo = yml["structure"]["genes"][1:]
    seq = yml["reference"]["seq"].replace("\n", "")
    L = len(seq)
    r2c, blocks, strand = refseq.parse_mapping(yml["reference"]["mappings"][build], L)
    # regions
    table = yml["structure"]["regions"][build]
    regs = {}
    nex = 0
    for rn, co in table.items():
        if rn[0] == "e" and rn[1:].isdigit():
            nex += 1
        regs[rn] = (co[0] - 1, co[1] - 1)
    for e in range(1, nex):
        a, b = regs[f"e{e}"], regs[f"e{e + 1}"]
        lo, hi = (a, b) if strand > 0 else (b, a)
        regs[f"i{e}"] = (lo[1], hi[0])
    order = [k for k, v in sorted(regs.items(), key=lambda x: x[1])][::strand]
    rank = {r: i for i, r in enumerate(order)}
    zero = {r for r, (a, b) in regs.items() if b - a <= 0}

    def region_of(gpos):
        for r, (a, b) in regs.items():
            if a <= gpos < b:
                return r
        return None

    # annotation table
    ann = collections.defaultdict(set)
    first = {}

    def scan(lst):
        for ent in lst:
            if isinstance(ent[0], str):
                continue
            info = ent[2:]
            fn = info[1] if len(info) > 1 else None
            ann[(ent[0], ent[1])].add(fn is not None)
            first.setdefault((ent[0], ent[1]), fn is not None)

    scan(yml["alleles"].get("random", []))
    groups = yml["alleles"].get("groups", {})
    for g, lst in groups.items():
        scan(lst)
    for an, a in yml["alleles"].items():
        if an in ("random", "groups") or a.get("ignored", False):
            continue
        scan(a["mutations"])
    inconsistent = {k for k, v in ann.items() if len(v) > 1}

    def mapped(pos1, op):
        a, b = refseq.footprint(pos1, op)
        return all(r in r2c for r in range(a, b))

    def anchor_region(pos1, op):
        a, b = refseq.footprint(pos1, op)
        return region_of(min(r2c[r] for r in range(a, b)))

    alleles = {}
    ambiguous = 0
    for an, a in yml["alleles"].items():
        if an in ("random", "groups") or a.get("ignored", False):
            continue
        nm = an.split("*", 1)[1].replace("/", "_") if "*" in an else an.replace("/", "_")
        sig = ("default",)
        core, silent = set(), set()
        muts = a["mutations"]
        if [name, "deletion"] in [list(m[:2]) for m in muts]:
            alleles[nm] = (("deletion",), frozenset(), frozenset())
            continue
        for ent in muts:
            pos, op = ent[0], ent[1]
            if isinstance(pos, str):
                if pos == "ignored":
                    continue
                if pos == name and op.startswith("deletion:"):
                    items = op[9:].split(",")
                    sig = ("custom", tuple(sorted(r for r in order if r in items and r not in zero)))
                elif pos == name and op in groups:
                    continue
                elif pos in pseudo:
                    if op[-1] == "-":
                        brk = op[:-1]
                        sig = ("left", tuple(r for r in order if rank[r] >= rank[brk] and r not in zero))  # retained gene regions
                    else:
                        brk = op[:-1] if op[-1] == "+" else op
                        sig = ("right", tuple(r for r in order if rank[r] < rank[brk] and r not in zero))
                continue
            if not mapped(pos, op):
                a0, b0 = refseq.footprint(pos, op)
                if any(r in r2c for r in range(a0, b0)):
                    ambiguous += 1
                    core.add(("?", pos, op))
                continue
            (core if first[(pos, op)] else silent).add((pos, op))
        alleles[nm] = (sig, frozenset(core), frozenset(silent))
    return {"alleles": alleles, "order": order, "zero": zero, "strand": strand, "inconsistent": inconsistent, "ambiguous": ambiguous,
            "anchor_region": anchor_region, "regs": regs, "mapped": mapped, "has_pseudo": bool(pseudo)}


def refnot(gene, ms):
    return frozenset((gene.mutations[tuple(m)][3] + 1, gene.mutations[tuple(m)][4]) for m in ms)


def check_build(gene, rd, viol, labels):
    from aldy.gene import CNConfigType as T

    al = rd["alleles"]
    # region lookup: every base of a region (first, last, middle) belongs to that region and to no other
    for gi, regs_g in enumerate(gene.regions):
        for rn, rg in regs_g.items():
            if rg.end <= rg.start:
                continue
            for p_ in {rg.start, rg.end - 1, (rg.start + rg.end) // 2}:
                got_r = gene.region_at(p_)
                # (shipped CYP2D6: the gene's upstream region and the pseudogene's last region overlap - either owner is right)
                owners = {(g2, r2) for g2, rs2 in enumerate(gene.regions) for r2, x2 in rs2.items() if x2.start <= p_ < x2.end}
                if got_r not in owners:
                    viol.append(V("region-lookup-differs-from-region-table", gene_index=gi, region=rn, pos=p_, offset=p_ - rg.start,
                                  length=rg.end - rg.start, got=str(got_r), strand=gene.strand))
                    break
    amb = any(any(x[0] == "?" for x in core) for _, core, _ in al.values())
    # configuration of every allele exists and lists its majors
    for an, a in gene.alleles.items():
        if a.cn_config not in gene.cn_configs:
            viol.append(V("allele-configuration-missing", allele=an, config=a.cn_config))
    for cn, conf in gene.cn_configs.items():
        want = {an for an, a in gene.alleles.items() if a.cn_config == cn}
        if set(conf.alleles) != want:
            viol.append(V("configuration-allele-list", config=cn, got=sorted(conf.alleles), want=sorted(want)))
    # content: core == functional, sets in RefSeq notation
    for an, a in gene.alleles.items():
        for m in a.func_muts:
            if not gene.is_functional(m, infer=False):
                viol.append(V("core-variant-not-functional", allele=an, variant=str(m)))
        for mn, mi in a.minors.items():
            for m in mi.neutral_muts:
                if gene.is_functional(m, infer=False):
                    viol.append(V("silent-variant-is-functional", allele=mn, variant=str(m)))
    # two majors never equal
    seen = {}
    for an, a in gene.alleles.items():
        k = (a.cn_config, frozenset(a.func_muts))
        if k in seen:
            viol.append(V("two-majors-identical" + (":partials" if "#" in an else ""), a=seen[k], b=an))
        seen[k] = an
        ms = {}
        for mn, mi in a.minors.items():
            k2 = frozenset(mi.neutral_muts)
            if k2 in ms:
                viol.append(V("two-minors-identical", major=an, a=ms[k2], b=mn))
            ms[k2] = mn
    if rd["inconsistent"] or amb:
        labels.append("partition-not-judged")
        return
    # group the database alleles independently
    groups = collections.defaultdict(list)
    for nm, (sig, core, silent) in al.items():
        groups[(sig, core)].append(nm)
    # which groups are bare left fusions (replaced by partials)?
    by_sig = collections.defaultdict(list)
    for (sig, core), names in groups.items():
        by_sig[sig].append((core, names))
    bare = set()
    for sig, lst in by_sig.items():
        if sig[0] != "left":
            continue
        all_names = [n for _, names in lst for n in names]
        amin = min(all_names)
        for core, names in lst:
            if amin in names and not core:
                bare |= set(names)
    where = {}
    for an, a in gene.alleles.items():
        for mn in a.minors:
            where.setdefault(mn, []).append(an)
    merged = renamed = dedup = 0
    for (sig, core), names in groups.items():
        majors = set()
        for nm in names:
            if nm in bare:
                if gene.get_allele(nm) is not None and "#" not in gene.get_allele(nm)[0].name:
                    pass
                continue
            got = gene.get_allele(nm)
            if got is None:
                viol.append(V("allele-not-reachable", allele=nm, sig=sig[0]))
                continue
            key = gene.removed.get(nm, nm)
            if nm in gene.removed:
                dedup += 1
            if len(where.get(key, [])) != 1:
                viol.append(V("allele-in-several-majors", allele=nm, majors=where.get(key)))
            majors.add(got[0].name)
            # content
            a, mi = got
            if refnot(gene, a.func_muts) != core:
                viol.append(V("core-set-differs", allele=nm, got=sorted(refnot(gene, a.func_muts)), want=sorted(core)))
            if refnot(gene, mi.neutral_muts) != al[nm][2]:
                viol.append(V("silent-set-differs", allele=nm, got=sorted(refnot(gene, mi.neutral_muts)), want=sorted(al[nm][2])))
            kind = gene.cn_configs[a.cn_config].kind
            wantk = {"default": T.DEFAULT, "left": T.LEFT_FUSION, "right": T.RIGHT_FUSION, "deletion": T.DELETION, "custom": T.CUSTOM}[sig[0]]
            if kind != wantk:
                # equal vectors of different kinds share one configuration (first one wins): judge by vector only
                labels.append("kind-shared-vector")
            # the configuration's gene vector says exactly what the database entry says: which regions the allele has
            vec = gene.cn_configs[a.cn_config].cn[0]
            regs_ = [r for r in rd["order"] if r not in rd["zero"] and r in vec]
            if sig[0] == "default":
                want_has = set(regs_)
            elif sig[0] == "deletion":
                want_has = set()
            elif sig[0] == "custom":
                want_has = set(regs_) - set(sig[1])
            else:
                want_has = set(sig[1]) & set(regs_)
            got_has = {r for r in regs_ if vec[r] > 0}
            if got_has != want_has:
                viol.append(V("configuration-vector-differs-from-database-entry:" + sig[0], allele=nm, config=a.cn_config,
                              extra_regions=sorted(got_has - want_has), missing_regions=sorted(want_has - got_has)))
        if len(majors) > 1:
            viol.append(V("group-split-over-majors", sig=sig[0], alleles=names, majors=sorted(majors)))
        if len(names) > 1:
            merged += 1
        for m in majors:
            if ":" in m or m not in [n.split(".")[0] for n in names]:
                renamed += 1
    # different groups -> different majors
    major_of_group = {}
    for (sig, core), names in groups.items():
        ms = {gene.get_allele(n)[0].name for n in names if n not in bare and gene.get_allele(n)}
        for m in ms:
            if m in major_of_group and major_of_group[m] != (sig, core):
                # same retained-region vector may come from different break regions: compare loaded configs instead
                viol.append(V("different-groups-share-a-major", major=m, a=str(major_of_group[m])[:100], b=str((sig, core))[:100]))
            major_of_group[m] = (sig, core)
    # partials
    npart = 0
    for sig, lst in by_sig.items():
        if sig[0] != "left":
            continue
        if not any(set(names) & bare for _, names in lst):
            continue
        retained = set(sig[1])
        cfg = [cn for cn, c in gene.cn_configs.items() if c.kind == T.LEFT_FUSION
               and {r for r, v in c.cn[0].items() if v > 0} == retained]
        if len(cfg) != 1:
            viol.append(V("fusion-configuration-not-found", retained=sorted(retained), found=cfg))
            continue
        f = cfg[0]
        parts = {an: a for an, a in gene.alleles.items() if a.cn_config == f}  # partials and database alleles of this fusion
        for (s2, core), names in groups.items():
            if s2 != ("default",):
                continue
            want_core = frozenset(v for v in core if rd["anchor_region"](*v) in retained)
            match = [a for a in parts.values() if refnot(gene, a.func_muts) == want_core]
            if len(match) != 1:
                viol.append(V("partial-allele-missing-or-duplicated", fusion=f, parent=names[0], want=sorted(want_core), n=len(match)))
                continue
            npart += 1
            have = {refnot(gene, mi.neutral_muts) for mi in match[0].minors.values()}
            for nm in names:
                want_sil = frozenset(v for v in al[nm][2] if rd["anchor_region"](*v) in retained)
                if want_sil not in have:
                    viol.append(V("partial-minor-missing", fusion=f, parent=nm, want=sorted(want_sil)))
        # has_coverage agrees with the region test
        for an in list(parts)[:3]:
            for (gp, go) in list(gene.mutations)[:40]:
                r = gene.region_at(gp)
                if r and r[0] == 0 and gene.has_coverage(an, gp) != (r[1] in retained):
                    viol.append(V("has_coverage-disagrees", allele=an, pos=gp, region=r[1]))
                    break
    if merged:
        labels.append("merged-major")
    if renamed:
        labels.append("renamed-major")
    if npart:
        labels.append("fusion-partials")
    if dedup or gene.removed:
        labels.append("removed-duplicate")


def summary(gene, rd):
    """Build-independent description of the loaded catalogue."""
    zero = rd["zero"]
    out = {}
    for an, a in gene.alleles.items():
        out[an] = (a.cn_config, str(gene.cn_configs[a.cn_config].kind), tuple(sorted(refnot(gene, a.func_muts))),
                   tuple(sorted((mn, tuple(sorted(refnot(gene, mi.neutral_muts)))) for mn, mi in a.minors.items())))
    vec = {cn: tuple((gi, r, v) for gi, g in enumerate(c.cn) for r, v in sorted(g.items())) for cn, c in gene.cn_configs.items()}
    return out, dict(gene.removed), vec


def run_case(case):
    from aldy.gene import Gene

    viol, labels = [], []
    if case["kind"] == "shipped":
        path = os.path.join(REPO, "aldy", "resources", "genes", case["gene"] + ".yml")
        labels.append("shipped")
    else:
        path = os.path.join(scratch(), "c09.yml")
        gen_db.write(case["db"], path)
    with open(path) as f:
        yml = yaml.safe_load(f)
    sums = {}
    rds = {}
    for build in ("hg19", "hg38"):
        gene = Gene(path, genome=build)
        rd = read_db(yml, build)
        rds[build] = rd
        n0 = len(viol)
        check_build(gene, rd, viol, labels)
        for v in viol[n0:]:
            v["detail"]["build"] = build
        sums[build] = summary(gene, rd)
        labels.append(f"strand:{gene.strand:+d}")
    # build independence (variants mapped in both builds only)
    a, b = sums["hg19"], sums["hg38"]
    both_mapped = not rds["hg19"]["ambiguous"] and not rds["hg38"]["ambiguous"] and \
        all(rds["hg19"]["alleles"][n][1:] == rds["hg38"]["alleles"][n][1:] for n in rds["hg19"]["alleles"])
    if both_mapped:
        if a[0] != b[0]:
            ka, kb = set(a[0]), set(b[0])
            diff = sorted(ka ^ kb)[:4] or [k for k in a[0] if a[0][k] != b[0][k]][:2]
            viol.append(V("catalogue-differs-between-builds", alleles=diff,
                          hg19=str([a[0].get(k) for k in diff])[:400], hg38=str([b[0].get(k) for k in diff])[:400]))
        if a[1] != b[1]:
            viol.append(V("removed-table-differs-between-builds", hg19=str(a[1])[:200], hg38=str(b[1])[:200]))
        z = rds["hg19"]["zero"] | rds["hg38"]["zero"]
        va = {cn: tuple(x for x in v if x[1] not in z) for cn, v in a[2].items()}
        vb = {cn: tuple(x for x in v if x[1] not in z) for cn, v in b[2].items()}
        if va != vb:
            viol.append(V("configuration-vectors-differ-between-builds", hg19=str(va)[:300], hg38=str(vb)[:300]))
    else:
        labels.append("build-diff-not-judged")
    seen, uniq = set(), []
    for v in viol:
        if v["bucket"] not in seen:
            seen.add(v["bucket"])
            uniq.append(v)
    nontrivial = bool({"merged-major", "renamed-major", "fusion-partials", "removed-duplicate"} & set(labels))
    return Result(uniq, sorted(set(labels)), nontrivial)


def enum_cases(tier):
    genes = sorted(os.path.basename(p)[:-4] for p in glob.glob(os.path.join(REPO, "aldy", "resources", "genes", "*.yml")))
    return [{"kind": "shipped", "gene": g} for g in genes]


def strategy(tier):
    return st.fixed_dictionaries({
        "kind": st.just("generated"),
        "db": gen_db.db_specs(kinds=gen_db.KINDS_ALL, max_sites=8, max_alleles=10, sv=True, pseudo=True, stress=True, gaps=True, small=True, keep_lost=True, many_exons=True),
    })


def budget(tier):
    return {"examples": 480 if tier == "quick" else 10000, "shards": 16}
