"""C17 - a debug dump replays to the same result."""
import os

from hypothesis import strategies as st

from lib import gen_db, simreads, cli_util
from lib.runner import Result, V, scratch
from props import C01

ID = "C17"
ISOLATE = True  # end-to-end solver calls: run every case in a killable child
CASE_TIMEOUT = 240
RULE = ("case = generated database(s) x planted sample (as in C01; optionally a second gene on another contig in the same BAM) x gap in "
        "{0, 0.1, 0.3} x max_minor_solutions 1-3 x output format; `aldy genotype --debug` is run through aldy.__main__.main, then the "
        "produced archive is genotyped with the same parameters; non-trivial = indel-defined allele planted, or > 2 copies, or >= 2 "
        "reported solutions, or two genes; distinct = case JSON")
ASSUMPTIONS = ["the archive is produced by `tar` through os.system as aldy does; a missing tar binary is an environment error",
               "scores compared at 1e-9"]
EXPLANATION = "round trip: BAM --debug--> archive --> genotype; output files byte-wise, API results field-wise"


def summarize(res):
    out = {}
    for k, sols in res.items():
        out[os.path.basename(k)] = [
            (round(s.score, 9),
             sorted((a.major, a.minor, tuple(sorted(map(tuple, a.added))), tuple(sorted(map(tuple, a.missing)))) for a in s.solution),
             sorted((a.major, n) for a, n in s.major_solution.solution.items()), sorted(map(tuple, s.major_solution.added)),
             round(s.major_solution.score, 9),
             sorted(s.major_solution.cn_solution.solution.items()), round(s.major_solution.cn_solution.score, 9),
             s.get_major_diplotype(), s.get_minor_diplotype())
            for s in sols]
    return out


def run_case(case):
    import aldy.common
    from aldy.gene import Gene
    from aldy.genotype import genotype
    from aldy.common import AldyException

    d = scratch()
    for fn in os.listdir(d):
        if fn.startswith("dbg") or fn.startswith("out"):
            os.remove(os.path.join(d, fn))
    aldy.common.json.clear()
    build = case["build"]
    # the second gene's name is contained in the first one's (as CYP3A4 is in CYP3A43; the containing name also sorts first): each must still be replayed from its own dump
    specs = [("ga", case["db"], "AGA")] + ([("gb", case["db2"], "GA")] if case.get("db2") else [])
    sims_reads = []
    dbs = []
    indel = False
    ncopies = 0
    rl = case["rl"]
    step = max(1, rl // case["depth"])
    first = None
    for i, (fn, spec, nm) in enumerate(specs):
        spec = dict(spec, name=nm)
        if i == 1:
            spec["builds"] = {b: dict(v, chr="8") for b, v in spec["builds"].items()}
        path = os.path.join(d, f"{fn}.yml")
        gen_db.write(spec, path)
        gene = Gene(path, genome=build)
        sub = dict(case, hap=case["hap"] if i == 0 else case["hap2"], extra=case["extra"] if i == 0 else [])
        copies = C01.plan(gene, sub)
        if copies is None:
            return Result([], ["inadmissible"], False)
        sim = simreads.Sim(gene, seed=case["sim_seed"] + i)
        if i == 0:
            first = sim
        reads = sim.sample_reads([(c, m) for c, m, _, _ in copies], rl, step, skip=() if i == 0 else ("neutral",))
        if case.get("odd") and len(gene.regions) > 1:
            # a few reads with a deletion and mismatches over the pseudogene (outside the RefSeq-mapped span) and the gene
            import random as _r

            rg = _r.Random(case["sim_seed"] + 31 + i)
            for gi in range(len(gene.regions)):
                lo_ = min(r.start for r in gene.regions[gi].values())
                hi_ = max(r.end for r in gene.regions[gi].values())
                for j in range(case["odd"]):
                    a = rg.randrange(lo_ + 5, max(lo_ + 6, hi_ - 70))
                    l1, dd, l2 = rg.randrange(15, 30), rg.randrange(1, 6), rg.randrange(15, 30)
                    G = sim.genome
                    sq = list(G[a:a + l1] + G[a + l1 + dd:a + l1 + dd + l2])
                    k = rg.randrange(len(sq))
                    sq[k] = {"A": "C", "C": "G", "G": "T", "T": "A"}[sq[k]]
                    reads.append((f"odd{i}_{gi}_{j}", a, [(0, l1), (2, dd), (0, l2)], "".join(sq)))
        sims_reads.append((sim, reads))
        dbs.append(path)
        indel |= any(op[:3] in ("ins", "del") for _, ms, _, _ in copies for _, op in ms)
        ncopies = max(ncopies, sum(1 for c in copies if c[2] is not None))
    bam, pbam = os.path.join(d, "s.bam"), os.path.join(d, "p.bam")
    simreads.write_multi(bam, sims_reads)
    prs = []
    for i, (sim, _) in enumerate(sims_reads):
        prs.append((sim, sim.sample_reads([("1", frozenset())] * 2, rl, step, skip=() if i == 0 else ("neutral",))))
    simreads.write_multi(pbam, prs)
    cnr = first.cnr
    if case.get("neutral_hole"):
        # neutral window wider than the stretch that carries reads: some positions have no coverage at all
        from aldy.common import GRange

        cnr = GRange(cnr.chr, cnr.start - 300 - case["neutral_hole"], cnr.end + 300 + case["neutral_hole"])
    region = f"{cnr.chr}:{cnr.start}-{cnr.end}"
    gene_arg = ",".join(dbs)
    ext = case["out"]
    out1, out2 = os.path.join(d, f"out1.{ext}"), os.path.join(d, f"out2.{ext}")
    prefix = os.path.join(d, "dbg")
    params = [f"gap={case['gap']}", f"max_minor_solutions={case['mms']}"] + list(case.get("xparams") or [])
    common = ["-g", gene_arg, "--genome", build, "-s", "cbc"] + (["--cn", "1,1"] if case.get("user_cn") else [])
    pargs = [x for p in params for x in ("--param", p)]
    labels = [f"genes:{len(dbs)}", f"out:{ext}", f"gap:{case['gap']}", "indel" if indel else "noindel", f"copies:{ncopies}",
              "neutral-hole" if case.get("neutral_hole") else "neutral-full", f"odd-reads:{case.get('odd', 0)}",
              "user-structure" if case.get("user_cn") else "called-structure"] + [f"param:{x.split('=')[0]}" for x in case.get("xparams") or []]
    viol = []

    code, recs = cli_util.run_main(["genotype", bam, "-p", pbam, "-n", region, "--debug", prefix, "-o", out1] + common + pargs)
    arch = prefix + ".tar.gz"
    if not os.path.exists(arch):
        return Result([V("no-archive-written", code=code, log=recs[-3:])], labels, True)
    code2, recs2 = cli_util.run_main(["genotype", arch, "-o", out2] + common + pargs)
    t1 = open(out1).read() if os.path.exists(out1) else None
    t2 = open(out2).read() if os.path.exists(out2) else None
    if t1 != t2:
        l1, l2 = (t1 or "").splitlines(), (t2 or "").splitlines()
        diff = [(a, b) for a, b in zip(l1 + [""] * len(l2), l2 + [""] * len(l1)) if a != b][:3]
        viol.append(V("output-file-differs:" + ext, diff=diff, code=(code, code2), log=recs2[-3:]))
    # API level
    kw = dict(genome=build, solver="cbc", gap=case["gap"], max_minor_solutions=case["mms"])
    if case.get("user_cn"):
        kw["cn_solution"] = ["1", "1"]
    for x in case.get("xparams") or []:
        k_, v_ = x.split("=")
        kw[k_] = v_  # strings, as the command line hands them over
    try:
        r1 = summarize(genotype(gene_arg, bam, pbam, output_file=None, cn_region=cnr, **kw))
    except AldyException as e:
        r1 = {"error": str(e)[:100]}
    try:
        r2 = summarize(genotype(gene_arg, arch, None, output_file=None, **kw))
    except AldyException as e:
        r2 = {"error": str(e)[:100]}
    nsol = max([len(v) for v in r1.values() if isinstance(v, list)] + [0])
    labels.append(f"nsol:{min(nsol, 3)}")
    if r1 != r2:
        what = "keys" if set(r1) != set(r2) else "solutions"
        det = {}
        for k in r1:
            if r1.get(k) != r2.get(k):
                det[k] = {"bam": r1.get(k), "archive": r2.get(k)}
        viol.append(V("api-result-differs:" + what, detail=str(det)[:1500]))
    # sample name
    nontrivial = indel or ncopies > 2 or nsol >= 2 or len(dbs) > 1
    return Result(viol, labels, nontrivial)


def strategy(tier):
    base = {
        "db": gen_db.db_specs(),
        "build": st.sampled_from(["hg19", "hg38"]),
        "hap": st.lists(st.tuples(st.integers(0, 5), st.integers(0, 40)).map(list), min_size=2, max_size=2),
        "hap2": st.lists(st.tuples(st.integers(0, 5), st.integers(0, 40)).map(list), min_size=2, max_size=2),
        "extra": st.lists(st.integers(0, 40), min_size=0, max_size=2),
        "rl": st.sampled_from([50, 100, 150]),
        "depth": st.sampled_from([20, 25]),
        "gap": st.sampled_from([0, 0.1, 0.3]),
        "mms": st.sampled_from([1, 1, 1, 2, 3]),
        "out": st.sampled_from(["aldy", "vcf", "simple"]),
        "sim_seed": st.integers(0, 10 ** 6),
        "db2": st.none() | gen_db.db_specs(small=True),
        "odd": st.sampled_from([0, 2, 5]),
        "neutral_hole": st.sampled_from([0, 0, 7, 60]),
        # a user-supplied structure and the parameters that are not stored in the archive's profile
        "user_cn": st.sampled_from([False, False, False, True]),
        "xparams": st.sampled_from([[], [], ["display_format=true"], ["min_avg_coverage=1000"], ["min_avg_coverage=0.5"],
                                    ["debug_novel=true"], ["display_format=true", "min_avg_coverage=3"]]),
    }
    return st.fixed_dictionaries(base)


def budget(tier):
    return {"examples": 160 if tier == "quick" else 2400, "shards": 16}


# ------------------------------------------------------------------ shipped NA10860 BAM
def run_na10860(case):
    from aldy.common import script_path
    from aldy.genotype import genotype
    from aldy.common import AldyException
    import aldy.common

    d = scratch()
    for fn in os.listdir(d):
        if fn.startswith("dbg") or fn.startswith("out"):
            os.remove(os.path.join(d, fn))
    aldy.common.json.clear()
    bam = script_path("aldy.tests.resources/" + case["file"])
    prefix = os.path.join(d, "dbg")
    out1, out2 = os.path.join(d, "out1.aldy"), os.path.join(d, "out2.aldy")
    pargs = ["--param", "minor_phase_vars=10", "--param", f"gap={case['gap']}", "--param", "max_minor_solutions=1"]
    common = ["-g", "cyp2d6", "-s", "cbc"]
    prof = case.get("profile", "illumina")
    code, recs = cli_util.run_main(["genotype", bam, "-p", prof, "--debug", prefix, "-o", out1] + common + pargs)
    arch = prefix + ".tar.gz"
    viol = []
    if not os.path.exists(arch):
        return Result([V("no-archive-written", code=code, log=recs[-3:])], ["shipped-bam"], True)
    # "the same parameters": a named profile that is more than depth data (exome = no structure calling) is named again
    cli_util.run_main(["genotype", arch, "-o", out2] + (["-p", prof] if "profile" in case else []) + common + pargs)
    t1 = open(out1).read() if os.path.exists(out1) else None
    t2 = open(out2).read() if os.path.exists(out2) else None
    if t1 != t2:
        viol.append(V("output-file-differs:aldy", file=case["file"]))
    kw = dict(solver="cbc", gap=case["gap"], max_minor_solutions=1, minor_phase_vars=10)
    r1 = summarize(genotype("cyp2d6", bam, prof, output_file=None, **kw))
    r2 = summarize(genotype("cyp2d6", arch, prof if "profile" in case else None, output_file=None, **kw))
    if r1 != r2:
        viol.append(V("api-result-differs:solutions", detail=str({"bam": r1, "archive": r2})[:1200], file=case["file"]))
    return Result(viol, ["shipped-bam:" + case["file"], f"gap:{case['gap']}", "profile:" + prof], True)


_gen_run_case = run_case


def run_case(case):  # noqa
    if case.get("kind") == "na10860":
        return run_na10860(case)
    return _gen_run_case(case)


def enum_cases(tier):
    cases = [{"kind": "na10860", "file": "NA10860.bam", "gap": 0}, {"kind": "na10860", "file": "NA10860.bam", "gap": 0, "profile": "exome"}]
    if tier != "quick":
        cases += [{"kind": "na10860", "file": "NA10860_hg38.bam", "gap": 0}, {"kind": "na10860", "file": "NA10860.bam", "gap": 0.1}]
    return cases
